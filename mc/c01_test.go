package mc

// C01 — stale or weaker claims never override newer knowledge.
// BFS to a fixpoint over a real node with one (quick) / two (thorough)
// subjects; every (state, claim) pair; lock-step reference + the property's
// own precedence oracle.

import (
	"fmt"
	"math"
	"strings"
	"testing"

	ml "github.com/hashicorp/memberlist"
)

func rankOf(state string) int {
	switch state {
	case "alive":
		return 0
	case "suspect":
		return 1
	}
	return 2 // dead, left
}

// claimRank: rank the claim asserts about the subject.
func claimRank(e cev) int {
	switch e.K {
	case "alive":
		return 0
	case "suspect":
		return 1
	case "dead":
		return 2
	case "pp":
		switch e.State {
		case "alive":
			return 0
		case "suspect", "dead":
			return 1 // remote suspect/dead is only hearsay: delivered as a suspect claim
		default:
			return 2
		}
	}
	return -1
}

// c01Oracle: the statement's own rule, independent of the reference model.
func c01Oracle(reclaim bool) func(w *world, e cev, ob *stepObs) (string, string) {
	return func(w *world, e cev, ob *stepObs) (string, string) {
		if claimRank(e) < 0 || e.Node == "o" {
			return "", ""
		}
		before := findRec(ob.Before, e.Node)
		after := findRec(ob.After, e.Node)
		wasMember := before != nil && (before.State == ml.StateAlive || before.State == ml.StateSuspect)
		if before == nil {
			return "", "" // no prior knowledge to override
		}
		held := rankOf(stateName(before.State))
		cr := claimRank(e)
		stale := e.Inc < before.Incarnation || (e.Inc == before.Incarnation && cr < held)
		// the one permitted regression: a different address reclaiming a
		// name whose holder left, or has been dead longer than the reclaim time
		if e.K == "alive" || (e.K == "pp" && e.State == "alive") {
			ip, port := w.resolve(e.Node, e.Addr)
			diffAddr := hostPort(ip, port) != hostPort(before.Addr, before.Port)
			if diffAddr && (before.State == ml.StateLeft ||
				(before.State == ml.StateDead && reclaim && ob.Now.Sub(before.StateChange) > w.cfg.Reclaim)) {
				stale = false
			}
		}
		if stale {
			// nothing may change: record, Members(), events, gossip queue, wire
			if recStr(before) != recStr(after) {
				return "stale-claim-changed-record", fmt.Sprintf("%v is older/weaker than held (%s) but the record became %s", e, recStr(before), recStr(after))
			}
			if fmt.Sprint(ob.MembersBefore) != fmt.Sprint(ob.MembersAfter) {
				return "stale-claim-changed-members", fmt.Sprintf("%v: Members %v -> %v", e, ob.MembersBefore, ob.MembersAfter)
			}
			if len(ob.Events) > 0 {
				return "stale-claim-fired-event", fmt.Sprintf("%v (held %s) fired %v", e, recStr(before), ob.Events)
			}
			if queueFull(ob.Before) != queueFull(ob.After) {
				return "stale-claim-regossiped", fmt.Sprintf("%v (held %s): queue %s -> %s", e, recStr(before), queueFull(ob.Before), queueFull(ob.After))
			}
			if ob.Sent > 0 {
				return "stale-claim-sent", fmt.Sprintf("%v caused %d packets", e, ob.Sent)
			}
			return "", ""
		}
		// any change must be forward movement in (incarnation, rank)
		if after != nil && (before.State != after.State || before.Incarnation != after.Incarnation) {
			b, a := rankOf(stateName(before.State)), rankOf(stateName(after.State))
			forward := after.Incarnation > before.Incarnation || (after.Incarnation == before.Incarnation && a >= b)
			if !forward {
				// permitted regression handled above: then the claim was not stale and the address differs
				ip, port := w.resolve(e.Node, e.Addr)
				if !(cr == 0 && hostPort(ip, port) != hostPort(before.Addr, before.Port)) {
					return "backward-step", fmt.Sprintf("%v moved the view backwards: %s -> %s", e, recStr(before), recStr(after))
				}
			}
		}
		_ = wasMember
		return "", ""
	}
}

func c01Alphabet(subjects []string, cap uint32, full bool) func(w *world) []cev {
	return func(w *world) []cev {
		var out []cev
		s := w.o.M.VSnapshot()
		for si, x := range subjects {
			addrs := []string{"A", "B"}
			if si == 1 {
				addrs = []string{"C", "D"}
			}
			h := uint32(1)
			if r := findRec(s, x); r != nil {
				h = r.Incarnation
			}
			var incs []uint32
			for _, i := range []int64{int64(h) - 1, int64(h), int64(h) + 1} {
				if i >= 0 && uint32(i) <= cap {
					incs = append(incs, uint32(i))
				}
			}
			for _, inc := range incs {
				for _, ad := range addrs {
					for _, m := range []string{"m0", "m1"} {
						out = append(out, cev{K: "alive", Node: x, Inc: inc, Addr: ad, Meta: m, Vsn: "ok", Carrier: "pkt"})
					}
				}
				for _, v := range []string{"ok2", "bad", "short", "none"} {
					out = append(out, cev{K: "alive", Node: x, Inc: inc, Addr: addrs[0], Meta: "m0", Vsn: v, Carrier: "pkt"})
				}
				carriers := []string{"compound"}
				if full {
					carriers = []string{"compound", "compressed", "compcomp"}
				}
				for _, c := range carriers {
					for _, ad := range addrs {
						out = append(out, cev{K: "alive", Node: x, Inc: inc, Addr: ad, Meta: "m0", Vsn: "ok", Carrier: c})
					}
				}
				for _, ad := range addrs {
					out = append(out, cev{K: "pp", Node: x, Inc: inc, State: "alive", Addr: ad, Meta: "m0", Vsn: "ok"})
				}
				for _, f := range []string{"o", "t", "u", x} {
					out = append(out, cev{K: "suspect", Node: x, Inc: inc, From: f, Carrier: "pkt"})
				}
				out = append(out, cev{K: "suspect", Node: x, Inc: inc, From: "t", Carrier: "compound"})
				for _, f := range []string{"t", x, "o"} {
					out = append(out, cev{K: "dead", Node: x, Inc: inc, From: f, Carrier: "pkt"})
				}
				for _, st := range []string{"suspect", "dead", "left"} {
					out = append(out, cev{K: "pp", Node: x, Inc: inc, State: st, Addr: addrs[0], Meta: "m0", Vsn: "ok"})
				}
			}
		}
		out = append(out, cev{K: "advance", D: "reclaim"}, cev{K: "advance", D: "suspmax"}, cev{K: "advance", D: "gtd"}, cev{K: "reap"}, cev{K: "drain"})
		return out
	}
}

// c01AlphabetTop: the same kinds of claims at absolute incarnations around the largest
// representable one (a member gets there legitimately: a refutation jumps above whatever
// incarnation the accusation named).
func c01AlphabetTop(w *world) []cev {
	var out []cev
	for _, inc := range []uint32{7, math.MaxUint32 - 1, math.MaxUint32} {
		for _, ad := range []string{"A", "B"} {
			for _, m := range []string{"m0", "m1"} {
				out = append(out, cev{K: "alive", Node: "x", Inc: inc, Addr: ad, Meta: m, Vsn: "ok", Carrier: "pkt"})
			}
			out = append(out, cev{K: "pp", Node: "x", Inc: inc, State: "alive", Addr: ad, Meta: "m0", Vsn: "ok"})
		}
		out = append(out, cev{K: "alive", Node: "x", Inc: inc, Addr: "A", Meta: "m0", Vsn: "ok2", Carrier: "compound"})
		for _, f := range []string{"o", "t", "x"} {
			out = append(out, cev{K: "suspect", Node: "x", Inc: inc, From: f, Carrier: "pkt"})
		}
		for _, f := range []string{"t", "x"} {
			out = append(out, cev{K: "dead", Node: "x", Inc: inc, From: f, Carrier: "pkt"})
		}
		for _, st := range []string{"suspect", "dead", "left"} {
			out = append(out, cev{K: "pp", Node: "x", Inc: inc, State: st, Addr: "A", Meta: "m0", Vsn: "ok"})
		}
	}
	out = append(out, cev{K: "advance", D: "reclaim"}, cev{K: "advance", D: "suspmax"}, cev{K: "advance", D: "gtd"}, cev{K: "reap"}, cev{K: "drain"})
	return out
}

func TestC01(t *testing.T) {
	rep := newReport()
	defer rep.Write(t)
	subjects := []string{"x"}
	cap := uint32(3)
	full := false
	if thorough() {
		cap, full = 4, true
	}
	type cfg struct {
		name    string
		reclaim bool
		subj    []string
	}
	cfgs := []cfg{{"reclaim0", false, subjects}, {"reclaim10s", true, subjects}, {"top-incarnation-reclaim10s", true, subjects}, {"alive-filter-refuses-m1-reclaim10s", true, subjects}}
	if thorough() {
		cfgs = append(cfgs, cfg{"two-subjects-reclaim10s", true, []string{"x", "y"}})
	}
	rep.Bounds = map[string]any{"incarnation_cap": cap, "subjects": 1, "background_peers": 2, "configs": len(cfgs)}
	rep.Rule = "BFS to fixpoint over canonical node states; each transition = one claim (alive/suspect/dead/push-pull entry x incarnation h-1,h,h+1 x address x meta x version vector x carrier), time advance, reaping pass or queue drain applied to the real node after replaying the shortest path; distinct = distinct canonical states"
	rep.Assumptions = []string{"incarnations explored relative to the held one up to the cap (every comparison in the handlers is between claim and held incarnation)", "one activity chain at a time (inject, then quiescence)", "consecutive events are >= 1us apart in virtual time"}

	if replayT(t, rep, c01TScenarios()) {
		return
	}
	var rp swimReplay
	replay := loadReplay(&rp)
	for i, c := range cfgs {
		if !replay && !mine(i) {
			continue
		}
		if replay && rp.Cfg != c.name {
			continue
		}
		wc := worldCfg{Peers: 2}
		if c.reclaim {
			wc.Reclaim = 10 * 1e9
		}
		if strings.HasPrefix(c.name, "alive-filter") {
			wc.AliveVeto = "m1"
		}
		capc := cap
		if len(c.subj) > 1 {
			capc = 2
		}
		sc := &swimCheck{name: "C01", wc: wc, alphabet: c01Alphabet(c.subj, capc, full), oracle: c01Oracle(c.reclaim)}
		if strings.HasPrefix(c.name, "top-incarnation") {
			sc.alphabet = c01AlphabetTop
		}
		if len(c.subj) > 1 {
			sc.maxDept = 5
		}
		if replay {
			sc.runPath(t, rp.Path, func(w *world, ob *stepObs, i int) bool {
				d := w.diffRef(ob)
				sg, m := sc.oracle(w, rp.Path[i], ob)
				t.Logf("step %d %v: ref-diff=%q oracle=%q %s", i, rp.Path[i], d, sg, m)
				if d != "" || sg != "" {
					rep.Violate("replay:"+sg, d+m, rp)
				}
				rep.Transitions++
				return true
			})
			rep.States = 1
			rep.Samples = append(rep.Samples, pathStr(rp.Path))
			return
		}
		sc.bfs(t, rep, c.name)
	}
	if !replay {
		tb := 2
		if thorough() {
			tb = 3
		}
		runTSet(t, rep, c01TScenarios(), tb, 7000, func(v string) bool { return !strings.HasPrefix(v, "event-log") && v != "concurrent-callbacks" })
	}
	rep.Distinct = rep.States
	rep.Evaluations = rep.Transitions
}
