package mc

// C02 — a running node always defends itself. BFS over claims about the node
// itself (every type, relative and far-ahead incarnations, accuser, carrier),
// UpdateNode, time, drains; lock-step reference + the statement's oracle.

import (
	"fmt"
	"math"
	"testing"
	"time"

	ml "github.com/hashicorp/memberlist"
)

func c02Alphabet(cap uint32, full bool) func(w *world) []cev {
	return func(w *world) []cev {
		s := w.o.M.VSnapshot()
		own := s.Incarnation
		var out []cev
		if own >= math.MaxUint32-1 {
			return nil // terminal: the statement excludes the largest representable incarnation
		}
		incs := []uint32{own, own + 1, own + 6}
		if own > 0 {
			incs = append(incs, own-1)
		}
		incs = append(incs, math.MaxUint32-1)
		for _, inc := range incs {
			if inc != math.MaxUint32-1 && inc > cap {
				continue
			}
			for _, f := range []string{"t", "o"} {
				out = append(out, cev{K: "suspect", Node: "o", Inc: inc, From: f, Carrier: "pkt"})
				out = append(out, cev{K: "dead", Node: "o", Inc: inc, From: f, Carrier: "pkt"})
			}
			out = append(out, cev{K: "suspect", Node: "o", Inc: inc, From: "u", Carrier: "compound"})
			out = append(out, cev{K: "dead", Node: "o", Inc: inc, From: "u", Carrier: "compressed"})
			for _, st := range []string{"suspect", "dead", "left"} {
				out = append(out, cev{K: "pp", Node: "o", Inc: inc, State: st, Addr: "O", Vsn: "ok"})
			}
			for _, m := range []string{"om0", "other"} {
				for _, v := range []string{"ok", "ok2"} {
					out = append(out, cev{K: "alive", Node: "o", Inc: inc, Addr: "O", Meta: m, Vsn: v, Carrier: "pkt"})
				}
			}
			out = append(out, cev{K: "pp", Node: "o", Inc: inc, State: "alive", Addr: "O", Meta: "om0", Vsn: "ok"})
			out = append(out, cev{K: "pp", Node: "o", Inc: inc, State: "alive", Addr: "O", Meta: "other", Vsn: "ok", Join: true})
			out = append(out, cev{K: "alive", Node: "o", Inc: inc, Addr: "O2", Meta: "om0", Vsn: "ok", Carrier: "pkt"})
			// a claim whose version vector is partial or missing is not "the same" as what the node advertises
			out = append(out, cev{K: "alive", Node: "o", Inc: inc, Addr: "O", Meta: "om0", Vsn: "short", Carrier: "compound"})
			out = append(out, cev{K: "alive", Node: "o", Inc: inc, Addr: "O", Meta: "om0", Vsn: "none", Carrier: "pkt"})
		}
		if own < cap {
			out = append(out, cev{K: "update", Meta: "om0"}, cev{K: "update", Meta: "om1"})
		}
		out = append(out, cev{K: "drain"}, cev{K: "advance", D: "gtd"}, cev{K: "reap"})
		return out
	}
}

func c02Oracle(w *world, e cev, ob *stepObs) (string, string) {
	me := findRec(ob.After, "o")
	if me == nil {
		return "self-record-missing", fmt.Sprintf("after %v the node has no record of itself", e)
	}
	if me.State != ml.StateAlive {
		return "self-not-alive", fmt.Sprintf("after %v the node records itself as %s", e, stateName(me.State))
	}
	listed := false
	for _, n := range ob.MembersAfter {
		if n == "o" {
			listed = true
		}
	}
	if !listed {
		return "self-not-listed", fmt.Sprintf("after %v Members() = %v", e, ob.MembersAfter)
	}
	if ln := w.o.M.LocalNode(); ln == nil || ln.Name != "o" {
		return "localnode-wrong", fmt.Sprint(ln)
	}
	ownB, ownA := ob.Before.Incarnation, ob.After.Incarnation
	meB := findRec(ob.Before, "o")
	if e.Node != "o" || e.K == "update" {
		return "", ""
	}
	mustRefute := false
	switch {
	case e.K == "suspect" || e.K == "dead" || (e.K == "pp" && e.State != "alive"):
		mustRefute = e.Inc >= ownB
	case e.K == "alive" || (e.K == "pp" && e.State == "alive"):
		ip, port := w.resolve("o", e.Addr)
		same := hostPort(ip, port) == hostPort(meB.Addr, meB.Port)
		if same && len(vsnOf(e.Vsn)) >= 3 && vsnOf(e.Vsn)[0] == 0 {
			same = false // malformed version vector: claim is dropped before any comparison
		}
		if same {
			differs := string(meB.Meta) != e.Meta || fmt.Sprint(vsnOf(e.Vsn)) != fmt.Sprint(meB.Vsn[:])
			mustRefute = e.Inc > ownB || (e.Inc == ownB && differs)
		}
	}
	if mustRefute {
		if !(ownA > e.Inc) {
			return "refutation-not-above-claim", fmt.Sprintf("%v (own before %d): own incarnation after is %d", e, ownB, ownA)
		}
		if me.Incarnation != ownA {
			return "self-record-incarnation", fmt.Sprintf("%v: record i%d, counter %d", e, me.Incarnation, ownA)
		}
		found := false
		for _, q := range ob.After.Queue {
			var a ml.VAlive
			if len(q.Msg) > 0 && q.Msg[0] == ml.VAliveMsg && ml.VDecode(q.Msg[1:], &a) == nil && a.Node == "o" && a.Incarnation == ownA {
				found = true
			}
		}
		if !found {
			return "refutation-not-gossiped", fmt.Sprintf("%v: no queued alive about self with incarnation %d (queue %s)", e, ownA, queueFull(ob.After))
		}
		wantH := ob.Before.Health + 1
		if wantH > w.o.Cfg.AwarenessMaxMultiplier-1 {
			wantH = w.o.Cfg.AwarenessMaxMultiplier - 1
		}
		if ob.After.Health != wantH {
			return "refutation-health", fmt.Sprintf("%v: health %d -> %d", e, ob.Before.Health, ob.After.Health)
		}
	} else if ownA != ownB {
		return "spurious-refutation", fmt.Sprintf("%v (own before %d) changed own incarnation to %d", e, ownB, ownA)
	}
	return "", ""
}

// c02ReachesSuspected: "gossips an alive message carrying that new incarnation, so the accusation
// can always be overridden" - also when every peer the node knows has been a mere suspect in its own
// view for a long time (an isolated node and its accusers suspect each other): the refutation must
// actually be handed to the transport for such peers, not only sit in the queue.
func c02ReachesSuspected(t *testing.T, rep *Report) {
	for _, gtd := range []time.Duration{time.Second, 30 * time.Second} {
		for _, wait := range []time.Duration{500 * time.Millisecond, 5 * time.Second, 45 * time.Second} {
			for _, kind := range []string{"suspect", "dead"} {
				gtd, wait, kind := gtd, wait, kind
				desc := fmt.Sprintf("peers suspected for %v (GossipToTheDeadTime %v), then a %s claim about the node", wait, gtd, kind)
				rep.Transitions++
				res := inBubble(t, func(b *bubble) {
					installDetRand()
					nd, err := newNode("o", ip4(1), func(c *ml.Config) {
						c.GossipToTheDeadTime = gtd
						c.SuspicionMult = 200 // suspicion outlasts every wait below: the peers stay suspects
						c.GossipInterval = 200 * time.Millisecond
					})
					must(err)
					o := b.track(nd)
					advance(time.Microsecond)
					for i, p := range []string{"p1", "p2"} {
						o.M.VAliveNode(&ml.VAlive{Incarnation: 1, Node: p, Addr: ip4(byte(10 + i)), Port: 7946, Vsn: defaultVsn}, nil, false)
					}
					for _, p := range []string{"p1", "p2"} {
						o.M.VSuspectNode(&ml.VSuspect{Incarnation: 1, Node: p, From: "t"})
					}
					for o.M.VBroadcasts().NumQueued() > 0 {
						o.M.VGetBroadcasts(0, 1400)
					}
					time.Sleep(wait)
					settle()
					for _, p := range []string{"p1", "p2"} {
						if r := findRec(o.M.VSnapshot(), p); r == nil || r.State != ml.StateSuspect {
							rep.Violate("scenario-broken:reaches-suspected", fmt.Sprintf("%s: %s is %s", desc, p, recStr(r)), nil)
							return
						}
					}
					own := o.M.VSnapshot().Incarnation
					if kind == "suspect" {
						o.M.VSuspectNode(&ml.VSuspect{Incarnation: own + 4, Node: "o", From: "p1"})
					} else {
						o.M.VDeadNode(&ml.VDead{Incarnation: own + 4, Node: "o", From: "p1"})
					}
					o.T.TakeSent()
					for i := 0; i < 12; i++ {
						o.M.VGossip()
						settle()
					}
					sent := false
					for _, p := range o.T.TakeSent() {
						leaves, _ := explode(p.Buf)
						for _, l := range leaves {
							var a ml.VAlive
							if l[0] == ml.VAliveMsg && ml.VDecode(l[1:], &a) == nil && a.Node == "o" && a.Incarnation > own+4 {
								sent = true
							}
						}
					}
					if !sent {
						rep.Violate("refutation-never-sent", fmt.Sprintf("%s: the node raised its incarnation to %d but 12 gossip rounds handed no alive message about itself to the transport (its only peers are suspects in its view)", desc, o.M.VSnapshot().Incarnation), nil)
					}
				})
				if res.Panic != nil {
					rep.Violate("panic", fmt.Sprintf("%s: %v", desc, res.Panic), nil)
				}
			}
		}
	}
}

// c02AdvertiseLookupFails: the transport could name the node's advertise address at start-up and cannot
// any more (the interface went away). Every kind of accusation must still be outranked AND the alive
// message carrying the new incarnation must be queued and reach the transport at the next gossip round.
func c02AdvertiseLookupFails(t *testing.T, rep *Report) {
	for _, kind := range []string{"suspect", "dead", "alive-newer", "pp-suspect", "pp-dead"} {
		for _, ahead := range []uint32{0, 1, 6} {
			kind, ahead := kind, ahead
			desc := fmt.Sprintf("advertise-address lookup fails, then a %s claim about the node at own+%d", kind, ahead)
			rep.Transitions++
			res := inBubble(t, func(b *bubble) {
				installDetRand()
				nd, err := newNode("o", ip4(1))
				must(err)
				o := b.track(nd)
				advance(time.Microsecond)
				o.M.VAliveNode(&ml.VAlive{Incarnation: 1, Node: "p1", Addr: ip4(10), Port: 7946, Vsn: defaultVsn}, nil, false)
				for o.M.VBroadcasts().NumQueued() > 0 {
					o.M.VGetBroadcasts(0, 1400)
				}
				o.T.mu.Lock()
				o.T.AdvertiseErr = true
				o.T.mu.Unlock()
				own := o.M.VSnapshot().Incarnation
				claim := own + ahead
				switch kind {
				case "suspect":
					o.M.VSuspectNode(&ml.VSuspect{Incarnation: claim, Node: "o", From: "p1"})
				case "dead":
					o.M.VDeadNode(&ml.VDead{Incarnation: claim, Node: "o", From: "p1"})
				case "alive-newer":
					claim++
					o.M.VAliveNode(&ml.VAlive{Incarnation: claim, Node: "o", Addr: ip4(1), Port: 7946, Meta: []byte("not mine"), Vsn: defaultVsn}, nil, false)
				case "pp-suspect", "pp-dead":
					st := ml.StateSuspect
					if kind == "pp-dead" {
						st = ml.StateDead
					}
					_ = o.M.VMergeRemoteState(false, []ml.VPushNodeState{{Name: "o", Addr: ip4(1), Port: 7946, Incarnation: claim, State: st, Vsn: defaultVsn}}, nil)
				}
				settle()
				s := o.M.VSnapshot()
				if s.Incarnation <= claim {
					rep.Violate("not-refuted", fmt.Sprintf("%s: own incarnation %d after a claim at %d", desc, s.Incarnation, claim), nil)
					return
				}
				if r := findRec(s, "o"); r == nil || r.State != ml.StateAlive {
					rep.Violate("self-not-alive", fmt.Sprintf("%s: %s", desc, recStr(r)), nil)
					return
				}
				o.T.TakeSent()
				for i := 0; i < 3; i++ {
					o.M.VGossip()
					settle()
				}
				sent := false
				for _, p := range o.T.TakeSent() {
					leaves, _ := explode(p.Buf)
					for _, l := range leaves {
						var a ml.VAlive
						if l[0] == ml.VAliveMsg && ml.VDecode(l[1:], &a) == nil && a.Node == "o" && a.Incarnation > claim {
							sent = true
						}
					}
				}
				if !sent {
					rep.Violate("refutation-never-sent", fmt.Sprintf("%s: the node raised its incarnation to %d but no alive message above the claim reached the transport in 3 gossip rounds", desc, s.Incarnation), nil)
				}
			})
			if res.Panic != nil {
				rep.Violate("panic", fmt.Sprintf("%s: %v", desc, res.Panic), nil)
			}
		}
	}
}

func TestC02(t *testing.T) {
	rep := newReport()
	defer rep.Write(t)
	cap := uint32(9)
	if thorough() {
		cap = 16
	}
	rep.Bounds = map[string]any{"own_incarnation_cap": cap, "far_ahead": "own+6 and MaxUint32-1", "background_peers": 2}
	rep.Rule = "BFS to fixpoint over canonical node states; transitions = every claim about the node itself (suspect/dead/alive/push-pull entry x incarnation own-1,own,own+1,own+6,MaxUint32-1 x accuser x carrier x meta/version/address variants), UpdateNode, drain, time, reaping"
	rep.Assumptions = []string{"no Leave in this alphabet (C08 covers it)", "interleavings with concurrent API calls are explored by the Engine T part (c02 threads)"}
	sc := &swimCheck{name: "C02", wc: worldCfg{Peers: 2}, alphabet: c02Alphabet(cap, thorough()), oracle: c02Oracle}
	if replayT(t, rep, c02TScenarios()) {
		return
	}
	var rp swimReplay
	if loadReplay(&rp) {
		sc.runPath(t, rp.Path, func(w *world, ob *stepObs, i int) bool {
			d := w.diffRef(ob)
			sg, m := sc.oracle(w, rp.Path[i], ob)
			t.Logf("step %d %v: ref-diff=%q oracle=%q %s", i, rp.Path[i], d, sg, m)
			if d != "" || sg != "" {
				rep.Violate("replay:"+sg, d+m, rp)
			}
			rep.Transitions++
			return true
		})
		rep.States = 1
		rep.Samples = append(rep.Samples, pathStr(rp.Path))
		return
	}
	if i, _ := shard(); i == 0 {
		sc.bfs(t, rep, "default")
		c02ReachesSuspected(t, rep)
		c02AdvertiseLookupFails(t, rep)
	}
	tb := 2
	if thorough() {
		tb = 3
	}
	rep.Bounds["T_preemption_bound"] = tb
	// verdicts about publishing the latest metadata belong to C05 and are judged there
	runTSet(t, rep, c02TScenarios(), tb, 6000, func(v string) bool { return v != "latest-metadata-not-published" && v != "update-needed-its-timeout" })

	rep.Distinct = rep.States
	rep.Evaluations = rep.Transitions
}
