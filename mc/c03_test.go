package mc

// C03 — a crashed member is removed by every live node within a bounded time.
// (a) Engine S: the probe schedule of one real node under *every* shuffle
// permutation and insertion offset (the code's randomness is an enumerated
// choice), with joins and deaths between probes. (b) Engine N: detection bound
// in a 3-node (thorough: up to 5) cluster: crash instant menu x configuration
// lattice x every single (thorough: double) packet fault among the survivors.

import (
	"fmt"
	"os"
	"strings"
	"testing"
	"time"

	ml "github.com/hashicorp/memberlist"
	"github.com/hashicorp/memberlist/vshim/vrand"
)

// ---------------------------------------------------------------- (a) probe schedule

type enumRand struct {
	ch      *chooser
	offsetN func() int
	wraps   *int
}

func (e *enumRand) Choose(kind string, n int) int {
	switch kind {
	case "shuffle":
		// one Fisher-Yates step for position n-1: options j in [0,n); default = identity (j = n-1)
		k := e.ch.choose("shuffle", n, fmt.Sprintf("swap(%d,?)", n-1))
		return (n - 1 + n - k) % n // option 0 -> n-1 (identity), option 1 -> n-2, ...
	case "offset":
		m := e.offsetN()
		if m <= 0 {
			return 0
		}
		return e.ch.choose("offset", m, "insertion offset")
	}
	return 0
}

type schedScn struct {
	Peers  int    `json:"peers"`
	Extra  string `json:"extra"` // "", "dead-recent", "dead-old"
	Event  string `json:"event"` // "", "join", "death"
	EvAt   int    `json:"event_before_probe"`
	Probes int    `json:"probes"`
	Prefix []int  `json:"choices"`
}

func runSched(t *testing.T, s schedScn) (x nExec) {
	ch := &chooser{prefix: s.Prefix}
	res := inBubble(t, func(b *bubble) {
		nd, err := newNode("o", ip4(1), func(c *ml.Config) {
			c.ProbeTimeout = 200 * time.Millisecond
			c.IndirectChecks = 0
			c.DisableTcpPings = true
		})
		must(err)
		o := b.track(nd)
		advance(time.Microsecond)
		// setup with deterministic randomness
		installDetRand()
		for i := 0; i < s.Peers; i++ {
			o.M.VAliveNode(&ml.VAlive{Incarnation: 1, Node: fmt.Sprintf("p%d", i), Addr: ip4(byte(10 + i)), Port: 7946, Vsn: defaultVsn}, nil, false)
		}
		if s.Extra != "" {
			o.M.VAliveNode(&ml.VAlive{Incarnation: 1, Node: "gone", Addr: ip4(40), Port: 7946, Vsn: defaultVsn}, nil, false)
			o.M.VDeadNode(&ml.VDead{Incarnation: 1, Node: "gone", From: "t"})
			if s.Extra == "dead-old" {
				time.Sleep(o.Cfg.GossipToTheDeadTime + time.Second)
			}
		}
		advance(time.Microsecond)
		// the harness answers every ping at once
		var pinged []string
		o.T.OnSend = func(p sentPkt) {
			leaves, _ := explode(p.Buf)
			for _, l := range leaves {
				var pg ml.VPing
				if l[0] == ml.VPingMsg && ml.VDecode(l[1:], &pg) == nil {
					pinged = append(pinged, pg.Node)
					ack, _ := ml.VEncode(ml.VAckRespMsg, &ml.VAckResp{SeqNo: pg.SeqNo}, false)
					o.T.Deliver(ack, simAddr(p.To))
				}
			}
		}
		wraps := 0
		offN := 0
		vrand.Install(&enumRand{ch: ch, offsetN: func() int { return offN }, wraps: &wraps})
		defer installDetRand()
		type passRec struct {
			targets []string
			live    map[string]bool // live peers during the whole pass
			changed bool
		}
		var passes []*passRec
		cur := &passRec{live: map[string]bool{}}
		livePeers := func() map[string]bool {
			m := map[string]bool{}
			for _, r := range o.M.VSnapshot().Recs {
				if r.Name != "o" && (r.State == ml.StateAlive || r.State == ml.StateSuspect) {
					m[r.Name] = true
				}
			}
			return m
		}
		cur.live = livePeers()
		lastShuffles := 0
		countShuffles := func() int {
			n := 0
			for _, p := range ch.pts {
				if p.Kind == "shuffle" && strings.HasPrefix(p.Desc, fmt.Sprintf("swap(%d", len(o.M.VSnapshot().Order)-1)) {
					n++
				}
			}
			return n
		}
		_ = countShuffles
		for i := 0; i < s.Probes; i++ {
			if s.Event != "" && i == s.EvAt {
				switch s.Event {
				case "join":
					offN = len(o.M.VSnapshot().Order)
					o.M.VAliveNode(&ml.VAlive{Incarnation: 1, Node: "late", Addr: ip4(50), Port: 7946, Vsn: defaultVsn}, nil, false)
					offN = 0
				case "death":
					o.M.VDeadNode(&ml.VDead{Incarnation: 1, Node: "p0", From: "t"})
				}
				cur.changed = true
				advance(time.Microsecond)
			}
			before := o.M.VSnapshot()
			npts := len(ch.pts)
			nping := len(pinged)
			done := make(chan struct{})
			go func() { o.M.VProbe(); close(done) }()
			settle()
			select {
			case <-done:
			default:
				time.Sleep(time.Second)
				settle()
				<-done
			}
			// did the cursor wrap during this probe? (resetNodes shuffles)
			wrapped := false
			for _, p := range ch.pts[npts:] {
				if p.Kind == "shuffle" {
					wrapped = true
				}
			}
			if before.ProbeIndex >= len(before.Order) {
				wrapped = true
			}
			if wrapped {
				passes = append(passes, cur)
				cur = &passRec{live: livePeers()}
				lastShuffles++
			}
			for _, tg := range pinged[nping:] {
				cur.targets = append(cur.targets, tg)
				r := findRec(before, tg)
				if tg == "o" {
					x.Verdict, x.Msg = "probed-itself", fmt.Sprintf("probe %d", i)
					return
				}
				if r == nil || r.State == ml.StateDead || r.State == ml.StateLeft {
					x.Verdict, x.Msg = "probed-dead-member", fmt.Sprintf("probe %d pinged %s which is %s", i, tg, recStr(r))
					return
				}
			}
			if len(pinged)-nping > 1 {
				x.Verdict, x.Msg = "two-pings-in-one-probe", fmt.Sprint(pinged[nping:])
				return
			}
			// live set shrinks to peers alive during the whole pass
			now := livePeers()
			for p := range cur.live {
				if !now[p] {
					delete(cur.live, p)
					cur.changed = true
				}
			}
			advance(time.Millisecond)
		}
		// complete passes only (drop the first partial segment before the first wrap and the open one)
		for pi := 1; pi < len(passes); pi++ {
			p := passes[pi]
			cnt := map[string]int{}
			for _, tg := range p.targets {
				cnt[tg]++
			}
			if !p.changed {
				for peer := range p.live {
					if cnt[peer] != 1 {
						x.Verdict, x.Msg = "stable-pass-not-exactly-once", fmt.Sprintf("pass %d targets %v: live peer %s probed %d times", pi, p.targets, peer, cnt[peer])
						return
					}
				}
			}
			if pi+1 < len(passes) {
				q := passes[pi+1]
				for peer := range p.live {
					if !q.live[peer] {
						continue
					}
					seen := cnt[peer] > 0
					for _, tg := range q.targets {
						if tg == peer {
							seen = true
						}
					}
					if !seen {
						x.Verdict, x.Msg = "peer-skipped-two-passes", fmt.Sprintf("passes %d,%d targets %v + %v: live peer %s never probed", pi, pi+1, p.targets, q.targets, peer)
						return
					}
				}
			}
		}
		x.Digest = fmt.Sprint(pinged)
		x.Extra = map[string]any{"passes": len(passes), "pings": len(pinged)}
	})
	x.Choices = make([]int, len(ch.pts))
	for i, p := range ch.pts {
		x.Choices[i] = p.Pick
	}
	x.Pts = ch.pts
	if res.Panic != nil {
		x.Verdict, x.Msg = "panic", fmt.Sprint(res.Panic)
	}
	if ch.div != "" && x.Verdict == "" {
		x.Verdict, x.Msg = "replay-divergence", ch.div
	}
	return
}

// ---------------------------------------------------------------- (b) detection bound

type c03Cfg struct {
	Name     string
	Indirect int
	TCP      bool
	SuspMult int
	AwMax    int
	MaxMult  int
	Enc      bool
	PerNode  bool `json:",omitempty"` // stream pings are switched off per node (DisableTcpPingsForNode says yes for everybody), not globally
}

type detScn struct {
	N       int      `json:"n"`
	Cfg     c03Cfg   `json:"cfg"`
	CrashMs int      `json:"crash_at_ms"`
	Freeze  bool     `json:"freeze"`
	PreSusp bool     `json:"suspected_and_refuted_before_crash"`
	Crash2  int      `json:"second_crash_after_ms,omitempty"` // > 0: member N-2 crashes this long after member N-1 (inside its detection)
	Prefix  []int    `json:"choices"`
	Devs    []string `json:"deviations,omitempty"`
}

func (d detScn) bound(nRecs int) time.Duration {
	interval := time.Second
	st := ml.VSuspicionTimeout(d.Cfg.SuspMult, nRecs, interval)
	return time.Duration(2*nRecs*d.Cfg.AwMax)*interval + time.Duration(d.Cfg.MaxMult)*st
}

func runDetect(t *testing.T, s detScn) (x nExec) {
	ch := &chooser{prefix: s.Prefix}
	res := inBubble(t, func(b *bubble) {
		crashAt := time.Duration(s.CrashMs) * time.Millisecond
		B := s.bound(s.N)
		lastCrash := crashAt + time.Duration(s.Crash2)*time.Millisecond
		cfg := clusterCfg{N: s.N, L0: time.Millisecond, LatAlt: []time.Duration{240 * time.Millisecond}, AllowDrop: true, AllowDup: true,
			FaultFrom: crashAt, FaultTo: lastCrash + B, Horizon: lastCrash + B + 2*time.Second, StreamAlt: s.Cfg.TCP, StreamCut: 8,
			Opts: func(i int, c *ml.Config) {
				c.ProbeInterval = time.Second
				c.ProbeTimeout = 500 * time.Millisecond
				c.GossipInterval = 200 * time.Millisecond
				c.PushPullInterval = 7 * time.Second
				c.TCPTimeout = 30 * time.Second // WAN default: far above the probe interval, which must not matter
				c.IndirectChecks = s.Cfg.Indirect
				c.DisableTcpPings = !s.Cfg.TCP
				if s.Cfg.PerNode {
					c.DisableTcpPings = false
					c.DisableTcpPingsForNode = func(string) bool { return true }
				}
				c.SuspicionMult = s.Cfg.SuspMult
				c.AwarenessMaxMultiplier = s.Cfg.AwMax
				c.SuspicionMaxTimeoutMult = s.Cfg.MaxMult
				if s.Cfg.Enc {
					kr, _ := ml.NewKeyring(nil, keyK1)
					c.Keyring = kr
					c.Label = "dc"
					c.EnableCompression = true
				}
			}}
		c := newCluster(t, b, cfg, ch)
		if s.Cfg.Enc {
			// the wire summary needs plaintext: peel with the key
		}
		for i := 0; i < s.N; i++ {
			c.startTicks(i)
		}
		for i := 1; i < s.N; i++ {
			i := i
			c.at(time.Duration(10*i)*time.Millisecond, "join", func() {
				go func() { _, _ = c.nodes[i].M.Join([]string{nodeAddr(0)}) }()
			})
		}
		type victimT struct {
			idx     int
			at      time.Duration
			listed  map[int]bool
			nAt     map[int]int
			removed map[int]time.Duration
		}
		victims := []*victimT{{idx: s.N - 1, at: crashAt}}
		if s.Crash2 > 0 {
			victims = append(victims, &victimT{idx: s.N - 2, at: lastCrash})
		}
		nSurv := s.N - len(victims)
		victim := victims[0].idx
		if s.PreSusp {
			// an earlier false alarm: node 0 hears that the victim is suspect, the victim refutes in time
			c.at(crashAt-2500*time.Millisecond, "false-alarm", func() {
				if r := findRec(c.nodes[0].M.VSnapshot(), nodeName(victim)); r != nil {
					sm, _ := ml.VEncode(ml.VSuspectMsg, &ml.VSuspect{Incarnation: r.Incarnation, Node: nodeName(victim), From: "somebody"}, false)
					c.nodes[0].T.Deliver(sm, simAddr(nodeAddr(1)))
				}
			})
		}
		for _, v := range victims {
			v := v
			v.listed, v.nAt, v.removed = map[int]bool{}, map[int]int{}, map[int]time.Duration{}
			c.at(v.at, "crash", func() {
				for i := 0; i < nSurv; i++ {
					v.listed[i] = listed(c.nodes[i].node, nodeName(v.idx))
					v.nAt[i] = len(c.nodes[i].M.VSnapshot().Recs)
				}
				c.nodes[v.idx].frozen = s.Freeze
				c.crash(v.idx)
			})
		}
		c.StepCheck = func(c *cluster) string {
			for _, v := range victims {
				if c.since() < v.at {
					continue
				}
				for i := 0; i < nSurv; i++ {
					if _, ok := v.removed[i]; !ok && v.listed[i] && !listed(c.nodes[i].node, nodeName(v.idx)) {
						v.removed[i] = c.since() - v.at
					}
				}
			}
			return ""
		}
		c.run()
		x.Digest = c.digest()
		worst := time.Duration(0)
		for _, v := range victims {
			for i := 0; i < nSurv; i++ {
				if !v.listed[i] {
					continue
				}
				Bi := s.bound(v.nAt[i])
				d, ok := v.removed[i]
				if !ok || d > Bi {
					x.Verdict = "crashed-member-not-removed-in-time"
					x.Msg = fmt.Sprintf("%s still lists %s %v after the crash (bound %v, removed=%v at %v)", nodeName(i), nodeName(v.idx), c.since()-v.at, Bi, ok, d)
					return
				}
				if d > worst {
					worst = d
				}
				leaves := 0
				for _, ev := range c.nodes[i].Ev.Log {
					if ev.Kind == "leave" && ev.Name == nodeName(v.idx) {
						leaves++
					}
				}
				if leaves != 1 {
					x.Verdict, x.Msg = "leave-event-count", fmt.Sprintf("%s delivered %d leave events for the crashed member %s", nodeName(i), leaves, nodeName(v.idx))
					return
				}
			}
			// own evidence: some survivor declared the death itself
			if !s.Cfg.Enc {
				own := false
				for _, w := range c.Wire {
					for _, l := range w.Leaves {
						if strings.HasPrefix(l, "dead("+nodeName(v.idx)+",") && !strings.HasSuffix(l, "from="+nodeName(v.idx)+")") {
							own = true
						}
					}
				}
				anyListed := false
				for _, l := range v.listed {
					anyListed = anyListed || l
				}
				if anyListed && !own && nSurv > 1 {
					x.Verdict, x.Msg = "no-own-evidence-death", "no survivor gossiped a dead message about the crashed member "+nodeName(v.idx)
				}
			}
		}
		// survivors must not have removed each other at the horizon
		for i := 0; i < nSurv; i++ {
			for j := 0; j < nSurv; j++ {
				if i != j && !listed(c.nodes[i].node, nodeName(j)) && x.Verdict == "" {
					rec := findRec(c.nodes[i].M.VSnapshot(), nodeName(j))
					if rec != nil && rec.State != ml.StateSuspect {
						x.Extra = map[string]any{"survivor_unlisted": fmt.Sprintf("%s does not list %s (%s)", nodeName(i), nodeName(j), recStr(rec))}
					}
				}
			}
		}
		if x.Extra == nil {
			x.Extra = map[string]any{}
		}
		x.Extra["worst_ms"] = int(worst / time.Millisecond)
		x.Extra["bound_ms"] = int(B / time.Millisecond)
		x.Extra["packets"] = len(c.Wire)
	})
	x.Choices = make([]int, len(ch.pts))
	for i, p := range ch.pts {
		x.Choices[i] = p.Pick
	}
	x.Pts = ch.pts
	if res.Panic != nil {
		x.Verdict, x.Msg = "panic", fmt.Sprint(res.Panic)
	}
	if ch.div != "" && x.Verdict == "" {
		x.Verdict, x.Msg = "replay-divergence", ch.div
	}
	return
}

// ---------------------------------------------------------------- (c) crashes first learnt from a peer's list

// hearsayScn: one real node o, one live peer t (the harness answers its pings) and k members that have
// crashed (the harness answers nothing for them). Before o's own probes have noticed anything, an
// anti-entropy exchange with t delivers t's view of them: States[i] for member ci, entries in the given
// order. From then on o has to get rid of every one of them on its own evidence within the bound.
type hearsayScn struct {
	States []string `json:"states"` // per crashed member: alive | suspect | dead
	Order  []int    `json:"order"`  // order of the entries in the remote list
	Mult   int      `json:"suspicion_mult"`
}

// hearsayWorstPermille: the slowest removal seen by this worker in part (c), in thousandths of its bound.
var hearsayWorstPermille int

func runHearsay(t *testing.T, s hearsayScn) (verdict, msg string) {
	res := inBubble(t, func(b *bubble) {
		installDetRand()
		const interval = time.Second
		nd, err := newNode("o", ip4(1), func(c *ml.Config) {
			c.ProbeInterval = interval
			c.ProbeTimeout = 300 * time.Millisecond
			c.IndirectChecks = 0
			c.DisableTcpPings = true
			c.SuspicionMult = s.Mult
			c.AwarenessMaxMultiplier = 2
		})
		must(err)
		o := b.track(nd)
		advance(time.Microsecond)
		k := len(s.States)
		o.M.VAliveNode(&ml.VAlive{Incarnation: 1, Node: "t", Addr: ip4(9), Port: 7946, Vsn: defaultVsn}, nil, false)
		for i := 0; i < k; i++ {
			o.M.VAliveNode(&ml.VAlive{Incarnation: 1, Node: fmt.Sprintf("c%d", i), Addr: ip4(byte(10 + i)), Port: 7946, Vsn: defaultVsn}, nil, false)
		}
		advance(time.Microsecond)
		o.T.OnSend = func(p sentPkt) {
			if p.To != "10.0.0.9:7946" {
				return
			}
			leaves, _ := explode(p.Buf)
			for _, l := range leaves {
				var pg ml.VPing
				if l[0] == ml.VPingMsg && ml.VDecode(l[1:], &pg) == nil {
					ack, _ := ml.VEncode(ml.VAckRespMsg, &ml.VAckResp{SeqNo: pg.SeqNo}, false)
					o.T.Deliver(ack, simAddr(p.To))
				}
			}
		}
		n := k + 2
		B := time.Duration(2*n*2)*interval + time.Duration(o.Cfg.SuspicionMaxTimeoutMult)*ml.VSuspicionTimeout(s.Mult, n, interval)
		t0 := time.Now()
		var list []ml.VPushNodeState
		list = append(list, ml.VPushNodeState{Name: "t", Addr: ip4(9), Port: 7946, Incarnation: 1, State: ml.StateAlive, Vsn: defaultVsn})
		for _, i := range s.Order {
			st := map[string]ml.NodeStateType{"alive": ml.StateAlive, "suspect": ml.StateSuspect, "dead": ml.StateDead}[s.States[i]]
			list = append(list, ml.VPushNodeState{Name: fmt.Sprintf("c%d", i), Addr: ip4(byte(10 + i)), Port: 7946, Incarnation: 1, State: st, Vsn: defaultVsn})
		}
		must(o.M.VMergeRemoteState(false, list, nil))
		settle()
		removed := map[string]time.Duration{}
		note := func() {
			for i := 0; i < k; i++ {
				name := fmt.Sprintf("c%d", i)
				if _, ok := removed[name]; !ok && !listed(o, name) {
					removed[name] = time.Since(t0)
				}
			}
		}
		for tick := 0; time.Since(t0) <= B+interval; tick++ {
			done := make(chan struct{})
			go func() { o.M.VProbe(); close(done) }()
			settle()
			for waited := 0; ; waited++ {
				select {
				case <-done:
				default:
					if waited > 40 {
						verdict, msg = "probe-never-returned", fmt.Sprintf("%+v: a probe is still running %v after it began", s, time.Duration(waited)*100*time.Millisecond)
						return
					}
					time.Sleep(100 * time.Millisecond)
					settle()
					note()
					continue
				}
				break
			}
			note()
			// the next tick of a ticker with this period (a tick missed during a long probe is delivered at once)
			next := t0.Add(time.Duration(tick+1)*interval + 137*time.Microsecond)
			for time.Now().Before(next) {
				d := time.Until(next)
				if d > 100*time.Millisecond {
					d = 100 * time.Millisecond
				}
				time.Sleep(d)
				settle()
				note()
			}
		}
		for i := 0; i < k; i++ {
			name := fmt.Sprintf("c%d", i)
			d, ok := removed[name]
			if pm := int(1000 * d / B); ok && pm > hearsayWorstPermille {
				hearsayWorstPermille = pm
			}
			if !ok || d > B {
				verdict, msg = "crashed-member-not-removed-in-time", fmt.Sprintf("%+v: o still lists %s %v after learning of the crash from t's list (bound %v; record %s)", s, name, time.Since(t0), B, recStr(findRec(o.M.VSnapshot(), name)))
				return
			}
			leaves := 0
			for _, ev := range o.Ev.Log {
				if ev.Kind == "leave" && ev.Name == name {
					leaves++
				}
			}
			if leaves != 1 {
				verdict, msg = "leave-event-count", fmt.Sprintf("%+v: %d leave events for %s", s, leaves, name)
				return
			}
		}
		if !listed(o, "t") {
			verdict, msg = "live-peer-removed", fmt.Sprintf("%+v: the answering peer t is no longer listed", s)
		}
	})
	if res.Panic != nil {
		return "panic", fmt.Sprint(res.Panic)
	}
	if res.Leak && verdict == "" {
		return "goroutine-leak", fmt.Sprintf("%+v", s)
	}
	return
}

func c03HearsayScns() (out []hearsayScn) {
	perms := map[int][][]int{1: {{0}}, 2: {{0, 1}, {1, 0}}, 3: {{0, 1, 2}, {0, 2, 1}, {1, 0, 2}, {1, 2, 0}, {2, 0, 1}, {2, 1, 0}}}
	menu := []string{"suspect", "dead", "alive"}
	for k := 1; k <= 3; k++ {
		total := 1
		for i := 0; i < k; i++ {
			total *= 3
		}
		for code := 0; code < total; code++ {
			st := make([]string, k)
			c := code
			for i := range st {
				st[i] = menu[c%3]
				c /= 3
			}
			for _, ord := range perms[k] {
				if !thorough() && k == 3 && (ord[0] != 0 && ord[0] != 2) {
					continue
				}
				out = append(out, hearsayScn{States: st, Order: ord, Mult: 4})
				if k == 2 {
					out = append(out, hearsayScn{States: st, Order: ord, Mult: 3})
				}
			}
		}
	}
	return
}

type c03Replay struct {
	Sched *schedScn   `json:"sched,omitempty"`
	Det   *detScn     `json:"detect,omitempty"`
	Hear  *hearsayScn `json:"hearsay,omitempty"`
}

func TestC03(t *testing.T) {
	rep := newReport()
	defer rep.Write(t)
	var rp c03Replay
	if loadReplay(&rp) {
		var x nExec
		if rp.Hear != nil {
			x.Verdict, x.Msg = runHearsay(t, *rp.Hear)
		} else if rp.Sched != nil {
			x = runSched(t, *rp.Sched)
		} else {
			x = runDetect(t, *rp.Det)
		}
		t.Logf("replay: %q %s", x.Verdict, x.Msg)
		if os.Getenv("MC_DUMP_PTS") != "" {
			for i, p := range x.Pts {
				t.Logf("pt %d: %s n=%d pick=%d %s", i, p.Kind, p.N, p.Pick, p.Desc)
			}
		}
		if x.Verdict != "" {
			rep.Violate(x.Verdict, x.Msg, rp)
		}
		rep.States, rep.Transitions = 1, len(x.Pts)+1
		rep.Samples = append(rep.Samples, rp)
		return
	}
	rep.Rule = "(a) probe schedule: one real node with 1..4 peers (+ a dead-recent / dead-reapable record), probes over 3 passes, an optional join or death at 5 positions, the code's random draws (every Fisher-Yates step of every shuffle, every insertion offset) enumerated as choice points: all permutations of all wraps for lists of 2, of any two wraps for lists of 3, <= 2 (1) departures from the identity for lists of 4-5 (6); (b) detection: crash instant menu x configuration lattice x all executions with <= 1 (thorough 2) packet faults (drop, late, duplicate) or refused fallback dials among the survivors inside [crash, crash+B]; (c) one real node learns of 1-3 simultaneous crashes from a peer's anti-entropy list (every assignment of alive/suspect/dead to the crashed members x every order of the entries) and must remove each of them on its own probes within the bound"
	rep.Assumptions = []string{"ticks emulated by the harness", "detection bound B = 2*n*AwarenessMaxMultiplier*ProbeInterval + SuspicionMaxTimeoutMult*suspicionTimeout with n = records held at the crash", "cluster size <= 3 (thorough 5); a bound on faults, not all loss patterns"}
	digests := map[string]bool{}
	execs := 0
	worstRatio := 0.0
	// ---- (a)
	idx := 0
	for peers := 1; peers <= 4; peers++ {
		for _, extra := range []string{"", "dead-recent", "dead-old"} {
			nn := peers + 1
			if extra != "" {
				nn++
			}
			probes := 3*nn + 1
			evs := []struct {
				e  string
				at int
			}{{"", 0}}
			for _, at := range []int{0, nn / 2, nn - 1, nn, nn + nn/2} {
				evs = append(evs, struct {
					e  string
					at int
				}{"join", at}, struct {
					e  string
					at int
				}{"death", at})
			}
			for _, ev := range evs {
				s := schedScn{Peers: peers, Extra: extra, Event: ev.e, EvAt: ev.at, Probes: probes}
				idx++
				if !mine(idx) {
					continue
				}
				// unbounded deviations (all permutations) for small lists; bounded for the largest
				// a deviation is one Fisher-Yates step (or one insertion offset) departing from the
				// default: n-1 deviations reach every permutation of one wrap
				bound := 99 // lists of <= 3: every permutation of every wrap
				switch {
				case nn == 3:
					bound = 4 // every permutation of any two wraps
				case nn == 4:
					bound = 2
				case nn == 5:
					bound = 2
					if ev.e != "" {
						bound = 1
					}
				case nn >= 6:
					bound = 1
				}
				if thorough() && nn >= 4 {
					bound++
				}
				sidx := 0
				var rec func(prefix []int, used int)
				rec = func(prefix []int, used int) {
					s2 := s
					s2.Prefix = prefix
					journal("C03 sched %+v", s2)
					x := runSched(t, s2)
					execs++
					rep.Transitions += s.Probes
					digests["sched:"+x.Digest] = true
					if x.Verdict != "" {
						s2.Prefix = x.Choices
						rep.Violate("schedule:"+x.Verdict, fmt.Sprintf("%+v: %s", s2, x.Msg), c03Replay{Sched: &s2})
						rep.Outcome("violation:" + x.Verdict)
						return
					}
					rep.Outcome("schedule-ok")
					if execs%3000 == 1 {
						rep.Sample(map[string]any{"schedule": s2, "pinged": x.Digest})
					}
					if used >= bound || rep.OverBudget() {
						return
					}
					for i := len(prefix); i < len(x.Pts); i++ {
						for alt := 1; alt < x.Pts[i].N; alt++ {
							np := make([]int, i+1)
							copy(np, x.Choices[:i])
							np[i] = alt
							rec(np, used+1)
						}
					}
				}
				_ = sidx
				rec(nil, 0)
			}
		}
	}
	rep.Extra["schedule_executions"] = execs
	// ---- (b)
	cfgs := []c03Cfg{
		{"ind1-tcp", 1, true, 3, 2, 2, false, false},
		{"ind0-notcp", 0, false, 3, 2, 2, false, false},
		{"ind3-tcp-mult4-aw3", 3, true, 4, 3, 2, false, false},
		{"ind1-notcp-enc", 1, false, 3, 2, 1, true, false},
		{Name: "ind1-notcp-per-node", Indirect: 1, SuspMult: 3, AwMax: 2, MaxMult: 2, PerNode: true},
	}
	ns := []int{3}
	bound := 1
	if thorough() {
		ns = []int{3, 4, 5}
		bound = 2
	}
	detExecs := 0
	for _, n := range ns {
		for ci, cf := range cfgs {
			for _, crash := range []int{15, 400, 1250, 2050, 3600, 7100} {
				if !thorough() && ci >= 2 && crash != 1250 && crash != 15 {
					continue
				}
				s := detScn{N: n, Cfg: cf, CrashMs: crash, Freeze: cf.TCP && (crash/50)%2 == 1, PreSusp: crash >= 3600 && !cf.Enc}
				b := bound
				if n > 3 || (thorough() && ci >= 2) {
					b = 1
				}
				sidx := (ci*100+crash)*7919 + n
				exploreN(rep, b, &sidx, func(prefix []int) nExec {
					s2 := s
					s2.Prefix = prefix
					journal("C03 detect %+v", s2)
					return runDetect(t, s2)
				}, func(x nExec) {
					detExecs++
					rep.Transitions += len(x.Pts)
					digests["det:"+x.Digest] = true
					if x.Verdict != "" {
						s2 := s
						s2.Prefix = x.Choices
						s2.Devs = devStr(x.Pts)
						rep.Violate("detection:"+x.Verdict, fmt.Sprintf("n=%d cfg=%s crash@%dms: %s; deviations %v", n, cf.Name, crash, x.Msg, devStr(x.Pts)), c03Replay{Det: &s2})
						rep.Outcome("violation:" + x.Verdict)
						return
					}
					rep.Outcome("detected-in-time")
					if w, ok := x.Extra["worst_ms"].(int); ok {
						if r := float64(w) / float64(x.Extra["bound_ms"].(int)); r > worstRatio {
							worstRatio = r
						}
					}
					if detExecs%400 == 1 {
						rep.Sample(map[string]any{"n": n, "cfg": cf.Name, "crash_ms": crash, "deviations": devStr(x.Pts), "detected_after_ms": x.Extra["worst_ms"], "bound_ms": x.Extra["bound_ms"]})
					}
				})
			}
		}
	}
	// two members crash, the second inside the detection of the first (its probe, its suspicion window,
	// after its death was announced)
	for ci, cf := range cfgs[:2] {
		for _, c2 := range []int{300, 1700, 4100} {
			if !thorough() && ci == 1 && c2 != 1700 {
				continue
			}
			s := detScn{N: 4, Cfg: cf, CrashMs: 1250, Crash2: c2}
			sidx := (ci*100+c2)*104729 + 4
			exploreN(rep, 1, &sidx, func(prefix []int) nExec {
				s2 := s
				s2.Prefix = prefix
				journal("C03 detect %+v", s2)
				return runDetect(t, s2)
			}, func(x nExec) {
				detExecs++
				rep.Transitions += len(x.Pts)
				digests["det2:"+x.Digest] = true
				if x.Verdict != "" {
					s2 := s
					s2.Prefix = x.Choices
					s2.Devs = devStr(x.Pts)
					rep.Violate("detection:"+x.Verdict, fmt.Sprintf("n=4 cfg=%s crash@1250ms second crash +%dms: %s; deviations %v", cf.Name, c2, x.Msg, devStr(x.Pts)), c03Replay{Det: &s2})
					rep.Outcome("violation:" + x.Verdict)
					return
				}
				rep.Outcome("both-detected-in-time")
			})
		}
	}
	// ---- (c) crashes first learnt from a peer's list
	hear := 0
	for hi, hs := range c03HearsayScns() {
		if !mine(700000 + hi) {
			continue
		}
		hs := hs
		journal("C03 hearsay %+v", hs)
		v, m := runHearsay(t, hs)
		hear++
		rep.Transitions += 40
		digests[fmt.Sprintf("hearsay:%v%v%d", hs.States, hs.Order, hs.Mult)] = true
		if v != "" {
			rep.Violate("hearsay:"+v, m, c03Replay{Hear: &hs})
			rep.Outcome("violation:" + v)
		} else {
			rep.Outcome("hearsay-detected-in-time")
		}
	}
	rep.Extra["hearsay_executions"] = hear
	rep.Extra["max_hearsay_removal_over_bound_permille"] = hearsayWorstPermille
	rep.Extra["detection_executions"] = detExecs
	rep.Extra["max_detection_time_over_bound_permille"] = int(worstRatio * 1000)
	rep.States = len(digests)
	rep.Distinct = len(digests)
	rep.Traces = execs + detExecs + hear
	rep.Evaluations = execs + detExecs + hear
}
