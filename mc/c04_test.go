package mc

// C04 — no false suspicion in a healthy cluster. Engine N: 3 (thorough 4)
// real nodes, every packet's latency a choice within the precondition
// (default 1 ms, alternatives just under ProbeTimeout/2), no loss; join
// orders, tick phases and user operations from menus; step invariants after
// every harness event.

import (
	"fmt"
	"strings"
	"testing"
	"time"

	ml "github.com/hashicorp/memberlist"
)

type c04Scn struct {
	N      int      `json:"n"`
	Order  []int    `json:"join_order"`
	Phase  int      `json:"phase"`
	Op     string   `json:"op"` // none update leave bcast reliable join-again
	OpAt   int      `json:"op_at_ms"`
	L0     string   `json:"base_latency"` // min max alt
	AwMax0 bool     `json:"awareness_max_multiplier_zero,omitempty"` // node 0 is configured with AwarenessMaxMultiplier 0 (the zero value of a hand-built Config)
	Prefix []int    `json:"choices"`
	Devs   []string `json:"deviations,omitempty"`
}

func c04Opts(i int, c *ml.Config) {
	c.ProbeInterval = time.Second
	c.ProbeTimeout = 500 * time.Millisecond
	c.GossipInterval = 200 * time.Millisecond
	c.PushPullInterval = 4 * time.Second
	c.TCPTimeout = 2 * time.Second
	// all distinct (a serf-like setup), and every node speaks another delegate version of the common
	// range (a rolling upgrade): the members' version vectors differ from each other
	c.DelegateProtocolMin, c.DelegateProtocolMax, c.DelegateProtocolVersion = 2, 5, uint8(2+i%4)
}

func runC04(t *testing.T, s c04Scn) (x nExec) {
	ch := &chooser{prefix: s.Prefix}
	res := inBubble(t, func(b *bubble) {
		pt2 := 250 * time.Millisecond
		opts := c04Opts
		if s.AwMax0 {
			opts = func(i int, c *ml.Config) {
				c04Opts(i, c)
				if i == 0 {
					c.AwarenessMaxMultiplier = 0
				}
			}
		}
		cfg := clusterCfg{N: s.N, Opts: opts, L0: time.Millisecond,
			LatAlt:    []time.Duration{pt2 - time.Millisecond, pt2 - 100*time.Microsecond},
			FaultFrom: 0, FaultTo: time.Hour, Horizon: 9 * time.Second}
		switch s.L0 {
		case "max":
			cfg.L0 = pt2 - 100*time.Microsecond
			cfg.LatAlt = []time.Duration{time.Millisecond}
		}
		phases := [][]time.Duration{{0, 0, 0, 0}, {0, 333 * time.Millisecond, 666 * time.Millisecond, 100 * time.Millisecond}, {500 * time.Millisecond, 0, 499 * time.Millisecond, 250 * time.Millisecond}}
		cfg.ProbePhase = phases[s.Phase%len(phases)]
		c := newCluster(t, b, cfg, ch)
		leaver := -1
		leavers := map[int]bool{}
		isLeaver := func(name string) bool {
			if leaver >= 0 && name == nodeName(leaver) {
				return true
			}
			for i := range leavers {
				if name == nodeName(i) {
					return true
				}
			}
			return false
		}
		updates := map[int]int{}
		c.StepCheck = func(c *cluster) string {
			for _, n := range c.nodes {
				if n.crashed {
					continue
				}
				snap := n.M.VSnapshot()
				if snap.Health != 0 {
					return fmt.Sprintf("%s health score %d", n.Name, snap.Health)
				}
				// nobody accuses anybody in a healthy cluster, so nobody has anything to refute
				if int(snap.Incarnation) > 1+updates[n.idx] {
					return fmt.Sprintf("%s raised its incarnation to %d after %d UpdateNode calls: it refuted something", n.Name, snap.Incarnation, updates[n.idx])
				}
				for i := range snap.Recs {
					r := &snap.Recs[i]
					if r.State == ml.StateAlive {
						continue
					}
					if isLeaver(r.Name) && r.State == ml.StateLeft {
						continue
					}
					return fmt.Sprintf("%s holds %s as %s", n.Name, r.Name, stateName(r.State))
				}
				for _, ev := range n.Ev.Log {
					if ev.Kind == "leave" && !isLeaver(ev.Name) {
						return fmt.Sprintf("%s delivered a leave event for %s", n.Name, ev.Name)
					}
				}
			}
			return ""
		}
		for i := 0; i < s.N; i++ {
			c.startTicks(i)
		}
		for k, i := range s.Order {
			i := i
			if i == s.Order[0] {
				continue
			}
			c.at(time.Duration(10*(k+1))*time.Millisecond, "join", func() {
				go func() { _, _ = c.nodes[i].M.Join([]string{nodeAddr(s.Order[0])}) }()
			})
		}
		at := time.Duration(s.OpAt) * time.Millisecond
		switch s.Op {
		case "update":
			c.at(at, "UpdateNode", func() {
				updates[1]++
				c.nodes[1].D.SetMeta([]byte("meta-1-updated"))
				go func() { _ = c.nodes[1].M.UpdateNode(2 * time.Second) }()
			})
		case "update-impatient":
			// the caller does not wait for the update to spread (1 ms): the announcement completes later, with nobody listening
			c.at(at, "UpdateNode(1ms)", func() {
				updates[1]++
				c.nodes[1].D.SetMeta([]byte("meta-1-impatient"))
				go func() { _ = c.nodes[1].M.UpdateNode(time.Millisecond) }()
			})
		case "update-before-join":
			// a member changes its metadata while it is still alone (nobody to wait for), then joins
			c.at(time.Millisecond, "UpdateNode(before joining)", func() {
				updates[1]++
				c.nodes[1].D.SetMeta([]byte("meta-1-early"))
				go func() { _ = c.nodes[1].M.UpdateNode(2 * time.Second) }()
			})
		case "update-empty":
			c.at(at, "UpdateNode(empty meta)", func() {
				updates[1]++
				c.nodes[1].D.SetMeta(nil)
				go func() { _ = c.nodes[1].M.UpdateNode(2 * time.Second) }()
			})
		case "leave":
			c.at(at, "Leave", func() {
				leaver = s.N - 1
				go func() { _ = c.nodes[s.N-1].M.Leave(2 * time.Second) }()
			})
		case "update+leave":
			// the departing member changes its metadata and leaves right afterwards: the departure
			// carries the raised incarnation and may overtake the update on its way to some observer
			c.at(at, "UpdateNode-then-Leave", func() {
				leaver = s.N - 1
				updates[s.N-1]++
				c.nodes[s.N-1].D.SetMeta([]byte("meta-last-words"))
				go func() {
					_ = c.nodes[s.N-1].M.UpdateNode(2 * time.Second)
					_ = c.nodes[s.N-1].M.Leave(2 * time.Second)
				}()
			})
		case "two-leaves+shutdown", "two-leaves+shutdown:first-then-second", "two-leaves+shutdown:second-then-last", "two-leaves+shutdown:last-then-first":
			// two members depart gracefully one after the other, each shutting down after its Leave: the
			// second leaver holds the first one's departed record while it announces its own departure
			l1, l2 := s.N-1, s.N-2
			switch s.Op {
			case "two-leaves+shutdown:first-then-second":
				l1, l2 = 0, 1
			case "two-leaves+shutdown:second-then-last":
				l1, l2 = 1, s.N-1
			case "two-leaves+shutdown:last-then-first":
				l1, l2 = s.N-1, 0
			}
			c.at(at, "Leave", func() {
				go func() { _ = c.nodes[l1].M.Leave(2 * time.Second) }()
			})
			c.at(at+1500*time.Millisecond, "Shutdown-after-leave", func() { c.crash(l1); c.nodes[l1].left = true })
			// the second one does what applications do: Leave, and Shutdown the moment Leave returns
			c.at(at+1700*time.Millisecond, "Leave-2-then-Shutdown", func() {
				go func() {
					_ = c.nodes[l2].M.Leave(2 * time.Second)
					c.nodes[l2].mu.Lock()
					c.nodes[l2].left = true
					c.nodes[l2].mu.Unlock()
					c.crash(l2)
				}()
			})
			leavers[l1], leavers[l2] = true, true
		case "leave+shutdown":
			c.at(at, "Leave", func() {
				leaver = s.N - 1
				go func() { _ = c.nodes[s.N-1].M.Leave(2 * time.Second) }()
			})
			c.at(at+1500*time.Millisecond, "Shutdown-after-leave", func() { c.crash(s.N - 1); c.nodes[s.N-1].left = true })
		case "bcast":
			c.at(at, "user-broadcast", func() { c.nodes[0].D.Bcasts = [][]byte{[]byte("hello-1"), []byte("hello-2")} })
		case "reliable":
			c.at(at, "SendReliable", func() {
				go func() {
					_ = c.nodes[1].M.SendReliable(&ml.Node{Name: nodeName(0), Addr: nodeIP(0), Port: uint16(nodePort(0))}, []byte("reliable"))
				}()
			})
		case "join-again":
			c.at(at, "Join-again", func() { go func() { _, _ = c.nodes[0].M.Join([]string{nodeAddr(1), nodeAddr(s.N - 1)}) }() })
		}
		c.run()
		x.Digest = c.digest()
		if c.stepFail != "" {
			x.Verdict, x.Msg = "false-suspicion", c.stepFail
		}
		// wire: no suspect message, no dead message except the leaver's own
		for _, w := range c.Wire {
			for _, l := range w.Leaves {
				if strings.HasPrefix(l, "suspect(") {
					x.Verdict, x.Msg = "suspect-on-the-wire", fmt.Sprintf("%v %s->%s %s", w.At, w.From, w.To, l)
				}
				selfSigned := false
				for i := 0; i < s.N; i++ {
					if isLeaver(nodeName(i)) && strings.Contains(l, "dead("+nodeName(i)+",") && strings.HasSuffix(l, "from="+nodeName(i)+")") {
						selfSigned = true
					}
				}
				if strings.HasPrefix(l, "dead(") && !selfSigned {
					x.Verdict, x.Msg = "dead-on-the-wire", fmt.Sprintf("%v %s->%s %s", w.At, w.From, w.To, l)
				}
			}
		}
		// sanity: the cluster did form (otherwise the run is vacuous)
		for _, n := range c.nodes {
			if n.crashed {
				continue
			}
			want := s.N
			if leaver >= 0 {
				want--
			}
			want -= len(leavers)
			if len(n.M.Members()) != want && x.Verdict == "" {
				x.Verdict, x.Msg = "cluster-did-not-form", fmt.Sprintf("%s lists %s", n.Name, c.view(n))
			}
		}
		x.Extra = map[string]any{"packets": len(c.Wire)}
	})
	x.Choices = make([]int, len(ch.pts))
	for i, p := range ch.pts {
		x.Choices[i] = p.Pick
	}
	x.Pts = ch.pts
	if res.Panic != nil {
		x.Verdict, x.Msg = "panic", fmt.Sprint(res.Panic)
	}
	if ch.div != "" && x.Verdict == "" {
		x.Verdict, x.Msg = "replay-divergence", ch.div
	}
	return
}

func TestC04(t *testing.T) {
	rep := newReport()
	defer rep.Write(t)
	var rp c04Scn
	if loadReplay(&rp) {
		x := runC04(t, rp)
		t.Logf("replay: %q %s", x.Verdict, x.Msg)
		if x.Verdict != "" {
			rep.Violate(x.Verdict, x.Msg, rp)
		}
		rep.States, rep.Transitions = 1, len(x.Pts)
		rep.Samples = append(rep.Samples, rp)
		return
	}
	bound := 1
	ns := []int{3}
	if thorough() {
		bound = 2
		ns = []int{3, 4}
	}
	rep.Bounds = map[string]any{"nodes": ns, "latency_deviations": bound, "latency_menu": "1ms (default), PT/2-1ms, PT/2-100us; uniform-max assignment with deviations back to 1ms", "horizon": "9s (3 full probe rounds + a push/pull interval)", "ops": "none, UpdateNode, Leave of a member that keeps running, user broadcast, SendReliable, second Join"}
	rep.Rule = "scenario menu (join order x tick phases x user operation x instant x base latency) x all executions with <= bound departures from the default latency of any packet; a state is the cluster digest at the horizon, a transition one choice point (packet)"
	rep.Assumptions = []string{"every delivery delay <= ProbeTimeout/2 and no loss (the property's precondition), enforced by construction", "ticks are emulated by the harness with the configured periods (real tickers tie probe and gossip at the same instant)", "deterministic peer selection (identity shuffle, rotating index draws) unless stated"}
	type scn = c04Scn
	var scns []scn
	for _, n := range ns {
		orders := [][]int{{0, 1, 2}, {1, 2, 0}, {2, 0, 1}}
		if n == 4 {
			orders = [][]int{{0, 1, 2, 3}, {3, 1, 0, 2}}
		}
		for oi, o := range orders {
			for _, op := range []string{"none", "update", "update-empty", "update-impatient", "update-before-join", "leave", "update+leave", "leave+shutdown", "bcast", "reliable", "join-again"} {
				for _, at := range []int{700, 1900, 3300} {
					if (op == "none" || op == "update-before-join") && at != 700 {
						continue
					}
					for _, l0 := range []string{"min", "max"} {
						if l0 == "max" && (at != 700 || oi != 0) {
							continue
						}
						scns = append(scns, scn{N: n, Order: o, Phase: oi, Op: op, OpAt: at, L0: l0})
					}
				}
			}
		}
	}
	// node 0 built from a Config whose AwarenessMaxMultiplier was left at its zero value
	for _, op := range []string{"none", "update", "leave"} {
		scns = append(scns, scn{N: 3, Order: []int{0, 1, 2}, Phase: 1, Op: op, OpAt: 700, L0: "min", AwMax0: true})
	}
	// two graceful departures in a row, each followed by Shutdown
	for _, n := range []int{3, 4} {
		ords := [][]int{{0, 1, 2}, {2, 0, 1}}
		if n == 4 {
			ords = [][]int{{0, 1, 2, 3}, {3, 1, 0, 2}}
		}
		for oi, o := range ords {
			for _, at := range []int{700, 1900} {
				for _, op := range []string{"two-leaves+shutdown", "two-leaves+shutdown:first-then-second", "two-leaves+shutdown:second-then-last", "two-leaves+shutdown:last-then-first"} {
					scns = append(scns, scn{N: n, Order: o, Phase: oi, Op: op, OpAt: at, L0: "min"})
				}
			}
		}
	}
	digests := map[string]bool{}
	shardIdx := 0
	execs := 0
	for si, s := range scns {
		s := s
		b := bound
		if !thorough() && !(s.Op == "none" || s.Op == "leave" || s.Op == "update" || s.Op == "update-empty" || s.Op == "update+leave" || s.Op == "leave+shutdown" || strings.HasPrefix(s.Op, "two-leaves+shutdown")) {
			b = 0 // quick: deviations only on the core scenarios
		}
		if b == 0 && !mine(si) {
			continue
		}
		sidx := si * 1000003
		exploreN(rep, b, &sidx, func(prefix []int) nExec {
			s2 := s
			s2.Prefix = prefix
			journal("C04 %+v", s2)
			return runC04(t, s2)
		}, func(x nExec) {
			execs++
			rep.Transitions += len(x.Pts)
			digests[x.Digest] = true
			if x.Verdict != "" {
				s2 := s
				s2.Prefix = x.Choices
				s2.Devs = devStr(x.Pts)
				rep.Violate(x.Verdict, fmt.Sprintf("%+v: %s; deviations %v", s, x.Msg, devStr(x.Pts)), s2)
				rep.Outcome("violation:" + x.Verdict)
			} else {
				rep.Outcome("healthy")
			}
			if execs%500 == 1 {
				rep.Sample(map[string]any{"scenario": s, "deviations": devStr(x.Pts), "packets": x.Extra["packets"]})
			}
		})
		_ = shardIdx
	}
	rep.States = len(digests)
	rep.Traces = execs
	rep.Evaluations = execs
	rep.Distinct = len(digests)
	rep.Extra["executions"] = execs
}
