package mc

// C05 — views re-converge to the live set once faults stop. Engine N: a
// fault window with one scripted environment action (partition, crash,
// same-address restart, leave, UpdateNode, earlier refutation) plus <= 1
// (thorough 2) per-message deviations (drop, delay, duplicate, refused dial),
// then a quiet suffix with reliable delivery and fair peer selection; end
// oracle on every live node.

import (
	"fmt"
	"net"
	"strings"
	"testing"
	"time"

	ml "github.com/hashicorp/memberlist"
)

type c05Scn struct {
	Monitor bool     `json:"monitor,omitempty"`
	N       int      `json:"n"`
	Action  string   `json:"action"`
	Prefix  []int    `json:"choices"`
	Devs    []string `json:"deviations,omitempty"`
	Tickers int      `json:"tickers_n,omitempty"` // replay of the real-ticker part for this cluster size
}

const (
	c05FaultFrom = 2 * time.Second
	c05FaultTo   = 13 * time.Second
)

func c05Opts(i int, c *ml.Config) {
	c.ProbeInterval = time.Second
	c.ProbeTimeout = 500 * time.Millisecond
	c.GossipInterval = 200 * time.Millisecond
	c.PushPullInterval = 5 * time.Second
	c.TCPTimeout = 2 * time.Second
	c.SuspicionMult = 3
	c.SuspicionMaxTimeoutMult = 2
	c.AwarenessMaxMultiplier = 2
	c.GossipToTheDeadTime = 8 * time.Second
}

func c05Settle(n int) time.Duration {
	b := time.Duration(2*n*2)*time.Second + 2*ml.VSuspicionTimeout(3, n, time.Second)
	return 2 * (b + time.Duration((n-1)*(n-1))*5*time.Second + 2*ml.VSuspicionTimeout(3, n, time.Second))
}

var c05Actions = []string{
	"none",
	"partition-0|rest-4s", "partition-0|rest-10s", "partition-last|rest-10s", "oneway-0->1-10s",
	"crash-last", "crash-0",
	"restart-last-quick", "restart-last-after-detection", "restart-last-remembered-higher", "restart-remembered-much-higher-then-update",
	"leave-last", "leave-last-then-shutdown", "leave-during-partition",
	"update-1", "update-1-during-partition",
	"false-accusation-of-1",
}

func runC05(t *testing.T, s c05Scn) (x nExec) {
	ch := &chooser{prefix: s.Prefix}
	res := inBubble(t, func(b *bubble) {
		n := s.N
		settleT := c05Settle(n)
		cfg := clusterCfg{N: n, Opts: c05Opts, L0: time.Millisecond, LatAlt: []time.Duration{700 * time.Millisecond}, AllowDrop: true, AllowDup: true, StreamAlt: true, StreamCut: 60,
			FaultFrom: c05FaultFrom, FaultTo: c05FaultTo, Horizon: c05FaultTo + settleT, Monitor: s.Monitor}
		c := newCluster(t, b, cfg, ch)
		for i := 0; i < n; i++ {
			c.startTicks(i)
		}
		for i := 1; i < n; i++ {
			i := i
			c.at(time.Duration(10*i)*time.Millisecond, "join", func() {
				go func() { _, _ = c.nodes[i].M.Join([]string{nodeAddr(0)}) }()
			})
		}
		last := n - 1
		latestMeta := map[int]string{}
		for i := 0; i < n; i++ {
			latestMeta[i] = fmt.Sprintf("meta-%d-g0", i)
		}
		part := func(blocked func(a, b int) bool, from, dur time.Duration) {
			c.at(from, "partition-start", func() { c.part = blocked })
			c.at(from+dur, "partition-stop", func() { c.part = nil })
		}
		t3 := 3 * time.Second
		isolate := func(k int) func(a, b int) bool { return func(a, b int) bool { return (a == k) != (b == k) } }
		rejoin := func(i int, at time.Duration) {
			c.at(at, "rejoin", func() { go func() { _, _ = c.nodes[i].M.Join([]string{nodeAddr(0)}) }() })
		}
		switch s.Action {
		case "partition-0|rest-4s":
			part(isolate(0), t3, 4*time.Second)
		case "partition-0|rest-10s":
			part(isolate(0), t3, 8*time.Second) // long enough for mutual death declarations, heals 2 s before faults stop
		case "partition-last|rest-10s":
			part(isolate(last), t3, 8*time.Second)
		case "oneway-0->1-10s":
			part(func(a, b int) bool { return a == 0 && b == 1 }, t3, 9800*time.Millisecond)
		case "crash-last":
			c.at(t3, "crash", func() { c.crash(last) })
		case "crash-0":
			c.at(t3, "crash", func() { c.crash(0) })
		case "restart-last-quick":
			c.at(t3, "crash", func() { c.crash(last) })
			c.at(t3+300*time.Millisecond, "restart", func() { c.restart(last); latestMeta[last] = fmt.Sprintf("meta-%d-g1", last) })
			rejoin(last, t3+320*time.Millisecond)
		case "restart-last-after-detection":
			c.at(t3, "crash", func() { c.crash(last) })
			c.at(t3+8*time.Second, "restart", func() { c.restart(last); latestMeta[last] = fmt.Sprintf("meta-%d-g1", last) })
			rejoin(last, t3+8*time.Second+20*time.Millisecond)
		case "restart-last-remembered-higher":
			// the victim refutes a false alarm first (incarnation 2), then restarts at incarnation 1
			c.at(1500*time.Millisecond, "false-alarm", func() {
				sm, _ := ml.VEncode(ml.VSuspectMsg, &ml.VSuspect{Incarnation: 1, Node: nodeName(last), From: "somebody"}, false)
				c.nodes[0].T.Deliver(sm, simAddr(nodeAddr(1)))
			})
			c.at(t3, "crash", func() { c.crash(last) })
			c.at(t3+300*time.Millisecond, "restart", func() { c.restart(last); latestMeta[last] = fmt.Sprintf("meta-%d-g1", last) })
			rejoin(last, t3+320*time.Millisecond)
		case "restart-remembered-much-higher-then-update":
			// four refuted false alarms (incarnation 5), restart at 1, re-join, then the owner updates its metadata
			for k := 0; k < 4; k++ {
				k := k
				c.at(time.Duration(400+600*k)*time.Millisecond, "false-alarm", func() {
					if r := findRec(c.nodes[0].M.VSnapshot(), nodeName(last)); r != nil {
						sm, _ := ml.VEncode(ml.VSuspectMsg, &ml.VSuspect{Incarnation: r.Incarnation, Node: nodeName(last), From: "somebody"}, false)
						c.nodes[0].T.Deliver(sm, simAddr(nodeAddr(1)))
					}
				})
			}
			c.at(t3, "crash", func() { c.crash(last) })
			c.at(t3+300*time.Millisecond, "restart", func() { c.restart(last); latestMeta[last] = fmt.Sprintf("meta-%d-g1", last) })
			rejoin(last, t3+320*time.Millisecond)
			c.at(t3+4*time.Second, "update", func() {
				latestMeta[last] = "meta-last-updated"
				c.nodes[last].D.SetMeta([]byte("meta-last-updated"))
				go func() { _ = c.nodes[last].M.UpdateNode(2 * time.Second) }()
			})
		case "leave-last":
			c.at(t3, "leave", func() { c.nodes[last].left = true; go func() { _ = c.nodes[last].M.Leave(2 * time.Second) }() })
		case "leave-last-then-shutdown":
			c.at(t3, "leave", func() { c.nodes[last].left = true; go func() { _ = c.nodes[last].M.Leave(2 * time.Second) }() })
			c.at(t3+2500*time.Millisecond, "shutdown", func() { c.crash(last) })
		case "leave-during-partition":
			part(isolate(0), t3, 6*time.Second)
			c.at(t3+time.Second, "leave", func() { c.nodes[last].left = true; go func() { _ = c.nodes[last].M.Leave(2 * time.Second) }() })
		case "update-1":
			c.at(t3, "update", func() {
				latestMeta[1] = "meta-1-updated"
				c.nodes[1].D.SetMeta([]byte("meta-1-updated"))
				go func() { _ = c.nodes[1].M.UpdateNode(2 * time.Second) }()
			})
		case "update-1-during-partition":
			part(isolate(1), t3, 5*time.Second)
			c.at(t3+time.Second, "update", func() {
				latestMeta[1] = "meta-1-updated"
				c.nodes[1].D.SetMeta([]byte("meta-1-updated"))
				go func() { _ = c.nodes[1].M.UpdateNode(2 * time.Second) }()
			})
		case "false-accusation-of-1":
			c.at(t3, "false-dead", func() {
				dm, _ := ml.VEncode(ml.VDeadMsg, &ml.VDead{Incarnation: 1, Node: nodeName(1), From: "somebody"}, false)
				c.nodes[0].T.Deliver(dm, simAddr(nodeAddr(last)))
			})
		}
		if s.Monitor {
			// C07: the event monitors of all nodes are the step oracle
			c.StepCheck = func(c *cluster) string {
				for _, n := range c.nodes {
					if n.crashed || n.mon == nil {
						continue
					}
					if n.Ev.MaxConc > 1 {
						return n.Name + ": concurrent event callbacks"
					}
					if len(n.mon.errs) > 0 {
						return n.Name + ": " + strings.Join(n.mon.errs, "; ")
					}
					var names []string
					for _, m := range n.M.Members() {
						names = append(names, m.Name)
						if lm, ok := n.mon.set[m.Name]; ok && lm != string(m.Meta) {
							return fmt.Sprintf("%s: Members() shows %s with meta %q, the event log says %q", n.Name, m.Name, m.Meta, lm)
						}
					}
					if got := strings.Join(sortedKeys(n.mon.set), ","); got != strings.Join(sortedCopy(names), ",") {
						return fmt.Sprintf("%s: Members()={%s}, replayed event log={%s}", n.Name, strings.Join(sortedCopy(names), ","), got)
					}
				}
				return ""
			}
		}
		precond := true
		c.at(c05FaultTo, "faults-stop", func() {
			// connectivity of the undirected lists-as-member graph over live nodes
			live := c.live()
			if len(live) == 0 {
				return
			}
			adj := map[string]map[string]bool{}
			for _, a := range live {
				adj[a.Name] = map[string]bool{}
			}
			for _, a := range live {
				for _, m := range memberNames(a.M) {
					if _, ok := adj[m]; ok && m != a.Name {
						adj[a.Name][m] = true
						adj[m][a.Name] = true
					}
				}
			}
			seen := map[string]bool{live[0].Name: true}
			stack := []string{live[0].Name}
			for len(stack) > 0 {
				v := stack[len(stack)-1]
				stack = stack[:len(stack)-1]
				for w := range adj[v] {
					if !seen[w] {
						seen[w] = true
						stack = append(stack, w)
					}
				}
			}
			precond = len(seen) == len(live)
		})
		c.run()
		x.Digest = c.digest()
		x.Extra = map[string]any{"packets": len(c.Wire), "precondition": precond}
		if s.Monitor {
			if c.stepFail != "" {
				x.Verdict, x.Msg = "event-log", c.stepFail
			}
			return
		}
		if !precond {
			return
		}
		live := c.live()
		var want []string
		for _, l := range live {
			want = append(want, l.Name)
		}
		wantS := strings.Join(sortedCopy(want), ",")
		for _, l := range live {
			if got := c.view(l); got != wantS {
				x.Verdict = "views-did-not-converge"
				x.Msg = fmt.Sprintf("%v after faults stopped %s lists {%s}, live set {%s}; cluster %s", settleT, l.Name, got, wantS, x.Digest)
				return
			}
			for _, m := range l.M.Members() {
				var idx int
				fmt.Sscanf(m.Name, "n%d", &idx)
				if string(m.Meta) != latestMeta[idx] {
					x.Verdict, x.Msg = "stale-metadata", fmt.Sprintf("%s lists %s with meta %q, owner's latest is %q", l.Name, m.Name, m.Meta, latestMeta[idx])
					return
				}
			}
			snap := l.M.VSnapshot()
			me := findRec(snap, l.Name)
			if me == nil || me.State != ml.StateAlive {
				x.Verdict, x.Msg = "own-record-not-alive", fmt.Sprintf("%s: %s", l.Name, recStr(me))
				return
			}
			for i := range snap.Recs {
				r := &snap.Recs[i]
				isLive := false
				for _, w := range want {
					if w == r.Name {
						isLive = true
					}
				}
				if isLive && (r.HasTimer || r.State != ml.StateAlive) {
					x.Verdict, x.Msg = "accusation-stuck", fmt.Sprintf("%s still holds live %s as %s", l.Name, r.Name, recStr(r))
					return
				}
			}
		}
	})
	x.Choices = make([]int, len(ch.pts))
	for i, p := range ch.pts {
		x.Choices[i] = p.Pick
	}
	x.Pts = ch.pts
	if res.Panic != nil {
		x.Verdict, x.Msg = "panic", fmt.Sprint(res.Panic)
	}
	if ch.div != "" && x.Verdict == "" {
		x.Verdict, x.Msg = "replay-divergence", ch.div
	}
	return
}

// c05Tickers: the cluster worlds above emulate the node's tickers (the harness is the clock);
// this part runs the REAL scheduling code (schedule / triggerFunc / pushPullTrigger) on one node
// that believes it is in a cluster of n members and checks what the emulation takes for granted
// and what the settling bound rests on: state exchanges are initiated once per size-scaled
// PushPullInterval, for ever, and probes once per ProbeInterval.
func c05Tickers(t *testing.T, rep *Report, n int) {
	res := inBubble(t, func(b *bubble) {
		installDetRand()
		nd, err := newNode("o", ip4(1), func(c *ml.Config) {
			c.ProbeInterval = time.Second
			c.ProbeTimeout = 200 * time.Millisecond
			c.GossipInterval = 200 * time.Millisecond
			c.PushPullInterval = time.Second
			c.DisableTcpPings = true // every dial below is a state exchange
			c.IndirectChecks = 0
			c.SuspicionMult = 1000 // nobody is declared dead within the horizon: n stays put
			c.TCPTimeout = 100 * time.Millisecond
		})
		must(err)
		o := b.track(nd)
		advance(time.Microsecond)
		for i := 0; i < n-1; i++ {
			o.M.VAliveNode(&ml.VAlive{Incarnation: 1, Node: fmt.Sprintf("f%03d", i), Addr: net.IPv4(10, 0, byte(1+i/200), byte(1+i%200)).To4(), Port: 7946, Vsn: defaultVsn}, nil, false)
		}
		advance(time.Microsecond)
		var dials, pings []time.Duration
		t0 := time.Now()
		o.T.OnDial = func(a ml.Address, d time.Duration) (net.Conn, error) {
			dials = append(dials, time.Since(t0))
			return nil, &net.OpError{Op: "dial", Net: "tcp", Err: fmt.Errorf("connection refused")}
		}
		o.T.OnSend = func(p sentPkt) {
			if leaves, err := explode(p.Buf); err == nil {
				for _, l := range leaves {
					var pg ml.VPing
					if l[0] == ml.VPingMsg && ml.VDecode(l[1:], &pg) == nil {
						pings = append(pings, time.Since(t0))
						// the imaginary members are healthy: they acknowledge
						ack, _ := ml.VEncode(ml.VAckRespMsg, &ml.VAckResp{SeqNo: pg.SeqNo}, false)
						o.T.Deliver(ack, simAddr(p.To))
					}
				}
			}
		}
		o.M.VSchedule()
		const horizon = 64 * time.Second
		time.Sleep(horizon)
		settle()
		o.M.VDeschedule()
		want := ml.VPushPullScale(time.Second, n)
		rep.Evaluations += len(dials) + len(pings)
		bad := ""
		if len(dials) < int((horizon-want)/want)-1 {
			bad = fmt.Sprintf("only %d state exchanges initiated in %v (one per %v expected)", len(dials), horizon, want)
		}
		for i := 1; i < len(dials) && bad == ""; i++ {
			if gap := dials[i] - dials[i-1]; gap < want || gap > want+150*time.Millisecond {
				bad = fmt.Sprintf("state exchanges %d and %d were initiated %v apart (scaled interval %v); instants %v", i-1, i, gap, want, dials[:min(len(dials), 10)])
			}
		}
		if bad != "" {
			rep.Violate("anti-entropy-period", fmt.Sprintf("a node that knows %d members, PushPullInterval 1s: %s", n, bad), map[string]any{"tickers_n": n})
		}
		// probes: the failure detector keeps its pace
		maxI := time.Duration(o.Cfg.AwarenessMaxMultiplier) * time.Second
		for i := 1; i < len(pings); i++ {
			if gap := pings[i] - pings[i-1]; gap > maxI+time.Second {
				rep.Violate("probe-period", fmt.Sprintf("n=%d: consecutive probes %v apart (slowest scaled interval %v)", n, gap, maxI), map[string]any{"tickers_n": n})
				break
			}
		}
		if len(pings) < int(horizon/(maxI+time.Second)) {
			rep.Violate("probe-period", fmt.Sprintf("n=%d: %d probes in %v", n, len(pings), horizon), map[string]any{"tickers_n": n})
		}
		rep.Outcome(fmt.Sprintf("tickers n=%d: %d exchanges every %v, %d probes", n, len(dials), want, len(pings)))
	})
	if res.Panic != nil {
		rep.Violate("panic:tickers", fmt.Sprint(res.Panic), map[string]any{"tickers_n": n})
	}
}

func TestC05(t *testing.T) {
	rep := newReport()
	defer rep.Write(t)
	if replayT(t, rep, c02TScenarios()) {
		return
	}
	var rp c05Scn
	if loadReplay(&rp) && rp.Tickers > 0 {
		c05Tickers(t, rep, rp.Tickers)
		rep.States, rep.Transitions = 1, 1
		rep.Samples = append(rep.Samples, rp)
		return
	}
	if loadReplay(&rp) {
		x := runC05(t, rp)
		t.Logf("replay: %q %s", x.Verdict, x.Msg)
		if x.Verdict != "" {
			rep.Violate(x.Verdict, x.Msg, rp)
		}
		rep.States, rep.Transitions = 1, len(x.Pts)+1
		rep.Samples = append(rep.Samples, rp)
		return
	}
	// four nodes also in the quick tier, there without message deviations (thorough: one deviation on every fourth action)
	ns := []int{3, 4}
	bound := 1
	rep.Bounds = map[string]any{"nodes": ns, "message_deviations": bound, "fault_window": "2s..13s", "settle": c05Settle(3).String(), "actions": c05Actions}
	rep.Rule = "16 scripted environment actions (partitions symmetric/one-way of 4-10 s, crashes, same-address restarts quick / after detection / remembered at a higher incarnation, leaves, UpdateNode, false accusation) x all executions with <= 1 departure from the default fate of any packet (drop, 700 ms delay, duplicate) or stream dial (refused) inside the fault window; quiet suffix of the settling time with reliable delivery and fair (rotating) peer selection; judged only if the live nodes' member lists still connect them when faults stop"
	rep.Assumptions = []string{"fair peer selection after the faults stop (the statement's bound cannot hold for an adversarial random source)", "T_settle = 2*(B(C03) + (n-1)^2*PushPullInterval + 2*suspicion timeout)", "<= 4 nodes; one scripted fault + <= bound message faults per history"}
	for i, n := range []int{2, 3, 32, 33, 40, 64, 65, 130} {
		if mine(1000 + i) {
			journal("C05 tickers n=%d", n)
			c05Tickers(t, rep, n)
		}
	}
	digests := map[string]bool{}
	execs, skipped := 0, 0
	for _, n := range ns {
		for ai, act := range c05Actions {
			s := c05Scn{N: n, Action: act}
			b := bound
			if n > 3 {
				b = 0
				if thorough() && ai%4 == 0 {
					b = 1
				}
			}
			if thorough() && n == 3 && (act == "partition-0|rest-10s" || act == "restart-last-remembered-higher") {
				b = 2
			}
			if b == 0 && !mine(ai) {
				continue
			}
			sidx := ai*7919 + n
			exploreN(rep, b, &sidx, func(prefix []int) nExec {
				s2 := s
				s2.Prefix = prefix
				journal("C05 %+v", s2)
				return runC05(t, s2)
			}, func(x nExec) {
				execs++
				rep.AddExtra("execs_"+act, 1)
				rep.Transitions += len(x.Pts)
				digests[x.Digest] = true
				if p, ok := x.Extra["precondition"].(bool); ok && !p {
					skipped++
					rep.Outcome("precondition-false")
					return
				}
				if x.Verdict != "" {
					s2 := s
					s2.Prefix = x.Choices
					s2.Devs = devStr(x.Pts)
					rep.Violate(x.Verdict+":"+act, fmt.Sprintf("n=%d action=%s: %s; deviations %v", n, act, x.Msg, devStr(x.Pts)), s2)
					rep.Outcome("violation:" + x.Verdict)
					return
				}
				rep.Outcome("converged:" + act)
				if execs%300 == 1 {
					rep.Sample(map[string]any{"n": n, "action": act, "deviations": devStr(x.Pts), "packets": x.Extra["packets"]})
				}
			})
		}
	}
	// ---- Engine T part: a false accusation racing UpdateNode must not lose the owner's latest metadata
	tb5 := 2
	if thorough() {
		tb5 = 3
	}
	runTSet(t, rep, c02TScenarios(), tb5, 11000, func(v string) bool { return v == "latest-metadata-not-published" || v == "update-needed-its-timeout" })
	rep.Extra["executions"] = execs
	rep.Extra["precondition_false"] = skipped
	rep.States = len(digests)
	rep.Distinct = len(digests)
	rep.Traces = execs
	rep.Evaluations = execs
}
