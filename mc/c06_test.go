package mc

// C06 — suspicion timeout: Lifeguard bounds and confirmation rules, with exact
// virtual time. (i) the timer object alone under every timed confirmation
// sequence from a menu of instants around every reference deadline; (ii) the
// real node: suspicion started by a failed probe or a third party's message,
// followed by every sequence of timed confirmations / refutation +
// re-suspicion / foreign death / leave / cluster-size change.

import (
	"fmt"
	"math"
	"sort"
	"strings"
	"testing"
	"time"

	ml "github.com/hashicorp/memberlist"
)

// refDeadline: documented schedule, independent of the code: after c distinct
// confirmations of k expected, the timeout is
// max(min, floor_ms(max - (max-min)*ln(c+1)/ln(k+1))).
func refTimeoutAfter(c, k int, min, max time.Duration) time.Duration {
	if k < 1 {
		return min
	}
	if c > k {
		c = k
	}
	frac := math.Log(float64(c)+1) / math.Log(float64(k)+1)
	raw := max.Seconds() - frac*(max.Seconds()-min.Seconds())
	t := time.Duration(math.Floor(1000*raw)) * time.Millisecond
	if t < min {
		t = min
	}
	return t
}

type tconf struct {
	At   time.Duration // offset from the start of the suspicion
	From string
}

type c06TimerCase struct {
	K        int
	Min, Max time.Duration
	Seq      []tconf
}

func (c c06TimerCase) String() string {
	s := fmt.Sprintf("k=%d min=%v max=%v:", c.K, c.Min, c.Max)
	for _, e := range c.Seq {
		s += fmt.Sprintf(" %s@%v", e.From, e.At)
	}
	return s
}

// refTimer predicts the firing instant (offset from start) and the Confirm
// return values that are defined (before firing).
func refTimer(c c06TimerCase) (fire time.Duration, rets []int) {
	seen := map[string]bool{"acc": true}
	n := 0
	dl := refTimeoutAfter(0, c.K, c.Min, c.Max)
	fired := false
	for _, e := range c.Seq {
		if !fired && e.At >= dl {
			fired = true
			fire = dl
		}
		if fired {
			rets = append(rets, -1) // not judged after the firing
			continue
		}
		if n >= c.K || seen[e.From] {
			rets = append(rets, 0)
			continue
		}
		seen[e.From] = true
		n++
		rets = append(rets, 1)
		dl = refTimeoutAfter(n, c.K, c.Min, c.Max)
		if dl <= e.At {
			fired = true
			fire = e.At
		}
	}
	if !fired {
		fire = dl
	}
	return
}

func runTimerCase(t *testing.T, c c06TimerCase) (sig, msg string) {
	res := inBubble(t, func(b *bubble) {
		start := time.Now()
		var fires []time.Duration
		var fireN []int
		s := ml.VNewSuspicion("acc", c.K, c.Min, c.Max, func(n int) {
			fires = append(fires, time.Since(start))
			fireN = append(fireN, n)
		})
		wantFire, wantRets := refTimer(c)
		for i, e := range c.Seq {
			if d := e.At - time.Since(start); d > 0 {
				time.Sleep(d)
			}
			settle()
			got := s.Confirm(e.From)
			settle()
			if wantRets[i] >= 0 && got != (wantRets[i] == 1) {
				sig, msg = "confirm-counted-wrongly", fmt.Sprintf("%v: confirmation #%d (%s@%v) returned %v, reference %v", c, i, e.From, e.At, got, wantRets[i] == 1)
				s.Stop()
				return
			}
		}
		time.Sleep(c.Max + 2*time.Second - time.Since(start))
		settle()
		if len(fires) != 1 {
			sig, msg = "timer-fire-count", fmt.Sprintf("%v: fired %d times (%v)", c, len(fires), fires)
			return
		}
		if fires[0] != wantFire {
			sig = "timer-fire-instant"
			if fires[0] < c.Min {
				sig = "timer-fired-before-min"
			} else if fires[0] > c.Max {
				sig = "timer-fired-after-max"
			}
			msg = fmt.Sprintf("%v: fired at start+%v, reference start+%v", c, fires[0], wantFire)
			return
		}
		if fires[0] < c.Min || (fires[0] > c.Max && wantFire <= c.Max) {
			sig, msg = "timer-out-of-bounds", fmt.Sprintf("%v: fired at %v", c, fires[0])
		}
	})
	if res.Panic != nil {
		return "panic", fmt.Sprintf("%v: %v", c, res.Panic)
	}
	return
}

func timerMenu(k int, min, max time.Duration) []time.Duration {
	set := map[time.Duration]bool{time.Microsecond: true, min / 2: true, max + time.Millisecond: true}
	for c := 0; c <= k; c++ {
		d := refTimeoutAfter(c, k, min, max)
		set[d-time.Millisecond] = true
		set[d+time.Millisecond] = true
	}
	var out []time.Duration
	for d := range set {
		if d > 0 {
			out = append(out, d)
		}
	}
	sort.Slice(out, func(i, j int) bool { return out[i] < out[j] })
	return out
}

// ---------------------------------------------------------------- node level

type nev struct {
	At   time.Duration // offset from suspicion start
	Kind string        // confirm refute resuspect dead leave addnode
	From string
}

type c06NodeCase struct {
	N       int // records in o's list at suspicion start (incl. o and x)
	Mult    int
	MaxMult int
	Start   string // probe | third
	Seq     []nev
}

func (c c06NodeCase) String() string {
	s := fmt.Sprintf("n=%d mult=%d maxmult=%d start=%s:", c.N, c.Mult, c.MaxMult, c.Start)
	for _, e := range c.Seq {
		s += fmt.Sprintf(" %s(%s)@%v", e.Kind, e.From, e.At)
	}
	return s
}

type c06Expect struct {
	LeaveAt   time.Duration // offset from first suspicion start; -1 = never
	ByTimer   bool
	SuspStart time.Duration // start offset of the suspicion that ended (for bound check)
	Min, Max  time.Duration
}

// refNodeCase: reference written from the documented schedule.
func refNodeCase(c c06NodeCase, interval time.Duration) c06Expect {
	n := c.N
	mk := func(n int) (k int, min, max time.Duration) {
		k = c.Mult - 2
		if n-2 < k {
			k = 0
		}
		scale := math.Max(1, math.Log10(math.Max(1, float64(n))))
		min = time.Duration(c.Mult) * time.Duration(scale*1000) * interval / 1000
		max = time.Duration(c.MaxMult) * min
		return
	}
	k, min, max := mk(n)
	accuser := "o"
	if c.Start == "third" {
		accuser = "t"
	}
	active := true
	start := time.Duration(0)
	seen := map[string]bool{accuser: true}
	cnt := 0
	dl := start + refTimeoutAfter(0, k, min, max)
	for _, e := range c.Seq {
		if active && e.At >= dl {
			return c06Expect{dl, true, start, min, max}
		}
		switch e.Kind {
		case "confirm", "resuspect", "newersuspect":
			// one and the same message: a suspect claim from e.From at the
			// current incarnation. With a suspicion running it is a
			// confirmation; after an accepted refutation it starts a new one.
			if !active {
				active = true
				start = e.At
				k, min, max = mk(n)
				seen = map[string]bool{e.From: true}
				cnt = 0
				dl = start + refTimeoutAfter(0, k, min, max)
				continue
			}
			if cnt >= k || seen[e.From] {
				continue
			}
			seen[e.From] = true
			cnt++
			dl = start + refTimeoutAfter(cnt, k, min, max)
			if dl <= e.At {
				return c06Expect{e.At, true, start, min, max}
			}
		case "refute":
			active = false
		case "dead":
			return c06Expect{e.At, false, start, min, max}
		case "leave":
			return c06Expect{e.At, false, start, min, max}
		case "addnode":
			n++
		}
	}
	if active {
		return c06Expect{dl, true, start, min, max}
	}
	return c06Expect{LeaveAt: -1}
}

func runNodeCase(t *testing.T, c c06NodeCase) (sig, msg string) {
	res := inBubble(t, func(b *bubble) {
		installDetRand()
		nd, err := newNode("o", ip4(1), func(cf *ml.Config) {
			cf.SuspicionMult = c.Mult
			cf.SuspicionMaxTimeoutMult = c.MaxMult
			cf.IndirectChecks = 0
			cf.DisableTcpPings = true
			// shorter than every suspicion timeout: a suspicion outlives the window in which the dead are
			// still gossiped to and kept (only the dead and the departed may be forgotten after it)
			cf.GossipToTheDeadTime = 500 * time.Millisecond
		})
		must(err)
		o := b.track(nd)
		advance(time.Microsecond)
		add := func(name string, ip byte, inc uint32) {
			o.M.VAliveNode(&ml.VAlive{Incarnation: inc, Node: name, Addr: ip4(ip), Port: 7946, Vsn: defaultVsn}, nil, false)
			advance(time.Microsecond)
		}
		add("x", 2, 1)
		for i := 0; i < c.N-2; i++ {
			add(fmt.Sprintf("q%d", i), byte(10+i), 1)
		}
		inc := uint32(1)
		// start the suspicion
		if c.Start == "probe" {
			done := make(chan struct{})
			go func() { o.M.VProbeNodeByName("x"); close(done) }()
			settle()
			for i := 0; i < 100; i++ {
				select {
				case <-done:
					i = 1000
				default:
					time.Sleep(100 * time.Millisecond)
					settle()
				}
			}
		} else if c.Start == "third" {
			o.M.VSuspectNode(&ml.VSuspect{Incarnation: 1, Node: "x", From: "t"})
		} else {
			// hearsay in a push/pull list: the node starts suspecting on its own account. The list may
			// carry other suspect/dead entries before or after x's (each gets its own, independent timer).
			ent := func(name string, ip byte, st ml.NodeStateType) ml.VPushNodeState {
				return ml.VPushNodeState{Name: name, Addr: ip4(ip), Port: 7946, Incarnation: 1, State: st, Vsn: defaultVsn}
			}
			switch c.Start {
			case "pp":
				o.M.VMergeState([]ml.VPushNodeState{ent("x", 2, ml.StateSuspect)})
			case "pp-first":
				o.M.VMergeState([]ml.VPushNodeState{ent("x", 2, ml.StateSuspect), ent("q0", 10, ml.StateSuspect)})
			case "pp-last":
				o.M.VMergeState([]ml.VPushNodeState{ent("q0", 10, ml.StateDead), ent("x", 2, ml.StateDead)})
			case "pp-middle":
				o.M.VMergeState([]ml.VPushNodeState{ent("q0", 10, ml.StateSuspect), ent("x", 2, ml.StateSuspect), ent("q1", 11, ml.StateDead)})
			}
		}
		settle()
		r := findRec(o.M.VSnapshot(), "x")
		if r == nil || r.State != ml.StateSuspect || !r.HasTimer {
			sig, msg = "suspicion-not-started", fmt.Sprintf("%v: record %s", c, recStr(r))
			return
		}
		t0 := r.StateChange
		if !r.SuspStart.Equal(t0) {
			sig, msg = "suspicion-start-skew", fmt.Sprintf("%v: timer start %v vs state change %v", c, r.SuspStart, t0)
			return
		}
		exp := refNodeCase(c, o.Cfg.ProbeInterval)
		if int(r.SuspK) != func() int {
			k := c.Mult - 2
			if c.N-2 < k {
				k = 0
			}
			return k
		}() || r.SuspMin != exp.Min && len(c.Seq) == 0 {
			sig, msg = "suspicion-parameters", fmt.Sprintf("%v: k=%d min=%v max=%v, reference min=%v max=%v", c, r.SuspK, r.SuspMin, r.SuspMax, exp.Min, exp.Max)
			return
		}
		evStart := o.Ev.Len()
		deathGossiped := false
		o.Ev.hook = func(kind string, n *ml.Node) {
			if kind != "leave" || n.Name != "x" {
				return
			}
			q, _ := o.M.VBroadcasts().VDump()
			for _, it := range q {
				var d ml.VDead
				if len(it.Msg) > 0 && it.Msg[0] == ml.VDeadMsg && ml.VDecode(it.Msg[1:], &d) == nil && d.Node == "x" && d.From == "o" {
					deathGossiped = true
				}
			}
		}
		for _, e := range c.Seq {
			if d := e.At - time.Since(t0); d > 0 {
				time.Sleep(d)
			}
			settle()
			switch e.Kind {
			case "confirm":
				o.M.VSuspectNode(&ml.VSuspect{Incarnation: inc, Node: "x", From: e.From})
			case "refute":
				inc++
				o.M.VAliveNode(&ml.VAlive{Incarnation: inc, Node: "x", Addr: ip4(2), Port: 7946, Vsn: defaultVsn}, nil, false)
			case "resuspect":
				o.M.VSuspectNode(&ml.VSuspect{Incarnation: inc, Node: "x", From: e.From})
			case "newersuspect":
				// a better-informed peer suspects x at a NEWER incarnation than this node holds (it saw a
				// refutation this node missed): during a running suspicion that is one more confirmation;
				// otherwise it starts a suspicion - either way x must be declared dead in due time
				was := findRec(o.M.VSnapshot(), "x")
				o.M.VSuspectNode(&ml.VSuspect{Incarnation: inc + 1, Node: "x", From: e.From})
				if was != nil && was.State == ml.StateAlive {
					inc++ // it started a suspicion: the record now carries the newer incarnation
				}
			case "dead":
				o.M.VDeadNode(&ml.VDead{Incarnation: inc, Node: "x", From: e.From})
			case "leave":
				o.M.VDeadNode(&ml.VDead{Incarnation: inc, Node: "x", From: "x"})
			case "staledead": // older incarnation than held: must change nothing
				o.M.VDeadNode(&ml.VDead{Incarnation: inc - 1, Node: "x", From: e.From})
			case "stalesuspect":
				o.M.VSuspectNode(&ml.VSuspect{Incarnation: inc - 1, Node: "x", From: e.From})
			case "stalealive": // not newer than held: must not cancel the suspicion
				o.M.VAliveNode(&ml.VAlive{Incarnation: inc, Node: "x", Addr: ip4(2), Port: 7946, Vsn: defaultVsn}, nil, false)
			case "addnode":
				o.M.VAliveNode(&ml.VAlive{Incarnation: 1, Node: "late", Addr: ip4(99), Port: 7946, Vsn: defaultVsn}, nil, false)
			case "wrap": // the probe cursor wraps around: the reaping pass must leave a suspected member alone
				o.M.VResetNodes()
			}
			settle()
		}
		// run past every possible deadline
		last := time.Duration(0)
		if len(c.Seq) > 0 {
			last = c.Seq[len(c.Seq)-1].At
		}
		time.Sleep(last + exp.Max + 40*time.Second - time.Since(t0))
		settle()
		var leaves []time.Duration
		for _, ev := range o.Ev.Since(evStart) {
			if ev.Kind == "leave" && ev.Name == "x" {
				leaves = append(leaves, ev.At.Sub(t0))
			}
		}
		if exp.LeaveAt < 0 {
			if len(leaves) != 0 {
				sig, msg = "refuted-suspicion-killed", fmt.Sprintf("%v: x was removed at start+%v although the suspicion was refuted and never renewed", c, leaves)
			}
			return
		}
		if len(leaves) != 1 {
			sig, msg = "leave-count", fmt.Sprintf("%v: %d leave events (%v), reference one at start+%v", c, len(leaves), leaves, exp.LeaveAt)
			return
		}
		if leaves[0] != exp.LeaveAt {
			sig = "death-instant"
			if exp.ByTimer && leaves[0] < exp.SuspStart+exp.Min {
				sig = "death-before-min"
			} else if exp.ByTimer && leaves[0] > exp.SuspStart+exp.Max {
				sig = "death-after-max"
			}
			msg = fmt.Sprintf("%v: x removed at start+%v, reference start+%v (suspicion from %v, min %v max %v)", c, leaves[0], exp.LeaveAt, exp.SuspStart, exp.Min, exp.Max)
			return
		}
		if exp.ByTimer {
			if leaves[0] < exp.SuspStart+exp.Min || leaves[0] > exp.SuspStart+exp.Max {
				sig, msg = "death-out-of-bounds", fmt.Sprintf("%v: %v", c, leaves[0])
				return
			}
			// own evidence: a dead message From=o was queued
			if !deathGossiped {
				sig, msg = "death-not-gossiped", fmt.Sprintf("%v", c)
			}
		}
	})
	if res.Panic != nil {
		return "panic", fmt.Sprintf("%v: %v", c, res.Panic)
	}
	return
}

type c06Replay struct {
	Timer *c06TimerCase `json:"timer,omitempty"`
	Node  *c06NodeCase  `json:"node,omitempty"`
}

func TestC06(t *testing.T) {
	rep := newReport()
	defer rep.Write(t)
	if replayT(t, rep, c06TScenarios()) {
		return
	}
	var rp c06Replay
	if loadReplay(&rp) {
		var sig, msg string
		if rp.Timer != nil {
			sig, msg = runTimerCase(t, *rp.Timer)
		} else {
			sig, msg = runNodeCase(t, *rp.Node)
		}
		t.Logf("replay: %q %s", sig, msg)
		if sig != "" {
			rep.Violate(sig, msg, rp)
		}
		rep.States, rep.Transitions = 1, 1
		rep.Samples = append(rep.Samples, rp)
		return
	}
	maxK, maxLen := 3, 3
	if thorough() {
		maxK, maxLen = 4, 5
	}
	rep.Bounds = map[string]any{"timer_k": fmt.Sprintf("0..%d", maxK), "timer_seq_len": "<= min(k+2," + fmt.Sprint(maxLen) + ")", "min_max": "(2s,2s) (2s,12s) (500ms,30s)", "node_n": []int{2, 3, 4, 5, 6, 12}, "node_mult": []int{2, 3, 4, 6}, "node_maxmult": []int{1, 2, 6}}
	rep.Rule = "every timed confirmation sequence over the instant menu {1us, min/2, every reference deadline +-1ms, max+1ms} x senders {accuser, p1..p4} (non-decreasing instants), on the timer object and on the real node (plus refutation+re-suspicion, foreign death, leave, cluster-size change at every position); the removal instant must equal the reference instant exactly"
	rep.Assumptions = []string{"instants exactly equal to a deadline are excluded (+-1ms used): at a tie both orders are legal", "virtual time (synctest): zero drift between timer start and start stamp"}
	idx := 0
	// ---- (i) timer object
	timerCases := 0
	for k := -1; k <= maxK; k++ { // k = -1: SuspicionMult 1 (no confirmations expected: the minimum is used from the start)
		for _, mm := range [][2]time.Duration{{2 * time.Second, 2 * time.Second}, {2 * time.Second, 12 * time.Second}, {500 * time.Millisecond, 30 * time.Second}} {
			menu := timerMenu(k, mm[0], mm[1])
			senders := []string{"acc", "p1", "p2", "p3", "p4"}[:min(5, k+3)]
			ln := min(k+2, maxLen)
			var rec func(seq []tconf, from int)
			rec = func(seq []tconf, from int) {
				idx++
				if mine(idx) {
					c := c06TimerCase{k, mm[0], mm[1], append([]tconf(nil), seq...)}
					journal("C06 timer %v", c)
					sig, msg := runTimerCase(t, c)
					rep.Transitions += len(seq) + 1
					timerCases++
					if sig != "" {
						rep.Violate(sig, msg, c06Replay{Timer: &c})
						rep.Outcome("violation")
					} else {
						f, _ := refTimer(c)
						rep.Outcome(fmt.Sprintf("fire@%v", f))
					}
					if timerCases%5000 == 1 {
						rep.Sample(c.String())
					}
				}
				if len(seq) >= ln {
					return
				}
				for ti := from; ti < len(menu); ti++ {
					for _, s := range senders {
						rec(append(seq, tconf{menu[ti], s}), ti)
					}
				}
			}
			rec(nil, 0)
		}
	}
	rep.Extra["timer_cases"] = timerCases

	// ---- (ii) node level
	nodeCases := 0
	type cfgT struct{ n, mult, maxm int }
	var cfgs []cfgT
	for _, n := range []int{2, 3, 4, 5, 6, 12} {
		for _, mult := range []int{1, 2, 3, 4, 6} {
			for _, mm := range []int{1, 2, 6} {
				if !thorough() && (n == 5 || mult == 6) && mm == 2 {
					continue
				}
				cfgs = append(cfgs, cfgT{n, mult, mm})
			}
		}
	}
	interval := time.Second
	for _, cf := range cfgs {
		for _, startMode := range []string{"probe", "third", "pp", "pp-first", "pp-last", "pp-middle"} {
			if (startMode == "pp-first" || startMode == "pp-last") && cf.n < 3 || startMode == "pp-middle" && cf.n < 4 {
				continue // these lists name other members of o's list
			}
			base := c06NodeCase{N: cf.n, Mult: cf.mult, MaxMult: cf.maxm, Start: startMode}
			e0 := refNodeCase(base, interval)
			k := cf.mult - 2
			if cf.n-2 < k {
				k = 0
			}
			// instant menu around the reference deadlines
			set := map[time.Duration]bool{time.Microsecond: true, e0.Min / 2: true}
			for c := 0; c <= k; c++ {
				d := refTimeoutAfter(c, k, e0.Min, e0.Max)
				set[d-time.Millisecond] = true
			}
			var menu []time.Duration
			for d := range set {
				if d > 0 {
					menu = append(menu, d)
				}
			}
			sort.Slice(menu, func(i, j int) bool { return menu[i] < menu[j] })
			kinds := []nev{{Kind: "confirm", From: "o"}, {Kind: "confirm", From: "t"}, {Kind: "confirm", From: "u"}, {Kind: "confirm", From: "x"},
				{Kind: "refute"}, {Kind: "resuspect", From: "u"}, {Kind: "dead", From: "t"}, {Kind: "leave"}, {Kind: "addnode"},
				{Kind: "staledead", From: "t"}, {Kind: "stalesuspect", From: "v"}, {Kind: "stalealive"}, {Kind: "newersuspect", From: "w"}, {Kind: "wrap"}}
			if thorough() {
				kinds = append(kinds, nev{Kind: "confirm", From: "v"}, nev{Kind: "resuspect", From: "o"})
			}
			ln := 2
			if thorough() || (cf.n >= 4 && cf.mult == 4 && cf.maxm == 6) {
				ln = 3
			}
			if strings.HasPrefix(startMode, "pp") {
				ln = 1
				if thorough() {
					ln = 2
				}
			}
			var rec func(seq []nev, from int)
			rec = func(seq []nev, from int) {
				idx++
				if mine(idx) {
					c := base
					c.Seq = append([]nev(nil), seq...)
					journal("C06 node %v", c)
					sig, msg := runNodeCase(t, c)
					rep.Transitions += len(seq) + 1
					nodeCases++
					if sig != "" {
						rep.Violate(sig, msg, c06Replay{Node: &c})
						rep.Outcome("violation")
					} else {
						e := refNodeCase(c, interval)
						rep.Outcome(fmt.Sprintf("n%d/m%d: leave@%v timer=%v", c.N, c.Mult, e.LeaveAt, e.ByTimer))
					}
					if nodeCases%2000 == 1 {
						rep.Sample(c.String())
					}
				}
				if len(seq) >= ln {
					return
				}
				for ti := from; ti < len(menu); ti++ {
					for _, kd := range kinds {
						term := false
						for _, p := range seq {
							if p.Kind == "dead" || p.Kind == "leave" {
								term = true
							}
						}
						if term {
							continue
						}
						e := kd
						e.At = menu[ti]
						if len(seq) > 0 && seq[len(seq)-1].At >= e.At {
							e.At = seq[len(seq)-1].At + time.Microsecond // keep injected events >= 1us apart
						}
						// the history ends when x is removed: later events belong to a new history
						pre := base
						pre.Seq = seq
						if ex := refNodeCase(pre, interval); ex.LeaveAt >= 0 && ex.LeaveAt <= e.At {
							continue
						}
						rec(append(seq, e), ti)
					}
				}
			}
			rec(nil, 0)
		}
	}
	// ---- Engine T: the timer callback racing a refutation
	runTSet(t, rep, c06TScenarios(), 3, 15000)
	rep.Extra["node_cases"] = nodeCases
	rep.Evaluations = timerCases + nodeCases
	rep.States = len(rep.Outcomes)
	rep.Distinct = len(rep.Outcomes)
	rep.Traces = timerCases + nodeCases
}
