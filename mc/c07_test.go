package mc

// C07 — membership events are a serialized, faithful log of Members().
// A monitor (recording EventDelegate) is attached to the real node in the
// worlds of C01, C02, C08 (peer and leaver) and C18 plus a mixed alphabet of
// its own; it checks inside every callback (node lock held) and after every
// transition.

import (
	"fmt"
	"sort"
	"strings"
	"testing"
	"time"

	ml "github.com/hashicorp/memberlist"
)

type c07mon struct {
	m    *ml.Memberlist
	set  map[string]string
	errs []string
}

func (c *c07mon) fail(f string, a ...any) {
	if len(c.errs) < 4 {
		c.errs = append(c.errs, fmt.Sprintf(f, a...))
	}
}

func (c *c07mon) onEvent(kind string, n *ml.Node) {
	_, in := c.set[n.Name]
	switch kind {
	case "join":
		if in {
			c.fail("join-twice: %s joined again without an intervening leave", n.Name)
		}
		c.set[n.Name] = string(n.Meta)
	case "leave":
		if !in {
			c.fail("leave-without-join: %s", n.Name)
		}
		delete(c.set, n.Name)
	case "update":
		if !in {
			c.fail("update-for-non-member: %s", n.Name)
		}
		c.set[n.Name] = string(n.Meta)
	}
	if c.m == nil {
		return
	}
	// inside the callback the node lock is held by the caller: atomic view
	s := c.m.VSnapshotLocked()
	var members []string
	for i := range s.Recs {
		r := &s.Recs[i]
		if r.State == ml.StateAlive || r.State == ml.StateSuspect {
			members = append(members, r.Name)
			if r.Name == n.Name && kind != "leave" && string(r.Meta) != string(n.Meta) {
				c.fail("event-meta-mismatch: %s %s carries %q, record has %q", kind, n.Name, n.Meta, r.Meta)
			}
		}
	}
	if got := strings.Join(sortedKeys(c.set), ","); got != strings.Join(members, ",") {
		c.fail("log-differs-inside-callback: after %s %s the replayed log gives {%s}, the records give {%s}", kind, n.Name, got, strings.Join(members, ","))
	}
}

func (c *c07mon) after(w *world, e cev) (string, string) {
	if w.o.Ev.MaxConc > 1 {
		return "concurrent-callbacks", fmt.Sprintf("%d event callbacks in flight at once", w.o.Ev.MaxConc)
	}
	if len(c.errs) > 0 {
		return strings.SplitN(c.errs[0], ":", 2)[0], fmt.Sprintf("after %v: %s", e, strings.Join(c.errs, "; "))
	}
	mem := w.o.M.Members()
	var names []string
	for _, n := range mem {
		names = append(names, n.Name)
		if lm, ok := c.set[n.Name]; ok && lm != string(n.Meta) {
			return "members-meta-without-event", fmt.Sprintf("after %v: Members() shows %s with meta %q, the event log says %q", e, n.Name, n.Meta, lm)
		}
	}
	sort.Strings(names)
	if got := strings.Join(sortedKeys(c.set), ","); got != strings.Join(names, ",") {
		return "members-changed-without-event", fmt.Sprintf("after %v: Members()={%s}, replayed event log={%s}", e, strings.Join(names, ","), got)
	}
	return "", ""
}

// monitored wraps a swimCheck so that its oracle is the C07 monitor.
func monitored(sc *swimCheck) *swimCheck {
	out := *sc
	out.name = "C07"
	out.wc.Monitor = true
	out.oracle = func(w *world, e cev, ob *stepObs) (string, string) { return w.mon.after(w, e) }
	return &out
}

func c07MixedAlphabet(w *world) []cev {
	s := w.o.M.VSnapshot()
	var out []cev
	h := uint32(1)
	if r := findRec(s, "x"); r != nil {
		h = r.Incarnation
	}
	for _, inc := range []uint32{h, h + 1} {
		if inc > 2 {
			continue
		}
		out = append(out, cev{K: "alive", Node: "x", Inc: inc, Addr: "A", Meta: "m0", Vsn: "ok", Carrier: "pkt"},
			cev{K: "alive", Node: "x", Inc: inc, Addr: "A", Meta: "m1", Vsn: "ok", Carrier: "pkt"},
			cev{K: "alive", Node: "x", Inc: inc, Addr: "B", Meta: "m0", Vsn: "ok", Carrier: "pkt"})
		out = append(out, cev{K: "suspect", Node: "x", Inc: inc, From: "t", Carrier: "pkt"},
			cev{K: "dead", Node: "x", Inc: inc, From: "t", Carrier: "pkt"},
			cev{K: "dead", Node: "x", Inc: inc, From: "x", Carrier: "pkt"},
			cev{K: "pp", Node: "x", Inc: inc, State: "dead", Addr: "A", Vsn: "ok"})
	}
	own := s.Incarnation
	if own < 3 {
		out = append(out, cev{K: "suspect", Node: "o", Inc: own, From: "t", Carrier: "pkt"},
			cev{K: "alive", Node: "o", Inc: own + 1, Addr: "O", Meta: "zz", Vsn: "ok", Carrier: "pkt"},
			cev{K: "update", Meta: "om1"}, cev{K: "update", Meta: "om0"})
	}
	out = append(out, cev{K: "leave"}, cev{K: "advance", D: "reclaim"}, cev{K: "advance", D: "suspmax"}, cev{K: "advance", D: "gtd"}, cev{K: "reap"}, cev{K: "drain"})
	return out
}

// ---- the library's own ChannelEventDelegate, read lazily

// teeEvents hands every callback to the recording delegate (which copies at callback time) and to the
// library's ChannelEventDelegate, whose channel the application reads only at the end.
type teeEvents struct {
	rec *eventRec
	ch  *ml.ChannelEventDelegate
}

func (t *teeEvents) NotifyJoin(n *ml.Node)   { t.rec.NotifyJoin(n); t.ch.NotifyJoin(n) }
func (t *teeEvents) NotifyLeave(n *ml.Node)  { t.rec.NotifyLeave(n); t.ch.NotifyLeave(n) }
func (t *teeEvents) NotifyUpdate(n *ml.Node) { t.rec.NotifyUpdate(n); t.ch.NotifyUpdate(n) }

type c07ChanReplay struct {
	Chan []int `json:"channel_sequence"`
}

// runC07Channel applies one sequence of claims about two members; afterwards the events waiting in the
// channel must read exactly like the log taken inside the callbacks (kind, member, metadata, address).
func runC07Channel(t *testing.T, seq []int) (sig, msg string) {
	type claim struct {
		kind, node, meta string
		addr             byte
	}
	menu := []claim{
		{"alive", "x", "v1", 2}, {"alive", "x", "v2", 2}, {"alive", "x", "v3", 2}, {"alive", "x", "v1", 3},
		{"dead", "x", "", 0}, {"left", "x", "", 0}, {"suspect", "x", "", 0},
		{"alive", "y", "w1", 4}, {"alive", "y", "w2", 4}, {"dead", "y", "", 0}, {"update", "o", "", 0},
	}
	res := inBubble(t, func(b *bubble) {
		installDetRand()
		ch := make(chan ml.NodeEvent, 256)
		var rec *eventRec
		nd, err := newNode("o", ip4(1), func(c *ml.Config) {
			rec = c.Events.(*eventRec)
			c.Events = &teeEvents{rec, &ml.ChannelEventDelegate{Ch: ch}}
		})
		must(err)
		o := b.track(nd)
		advance(time.Microsecond)
		inc := map[string]uint32{}
		var desc []string
		for i, k := range seq {
			c := menu[k%len(menu)]
			desc = append(desc, fmt.Sprintf("%s(%s,%s)", c.kind, c.node, c.meta))
			switch c.kind {
			case "alive":
				inc[c.node]++
				o.M.VAliveNode(&ml.VAlive{Incarnation: inc[c.node], Node: c.node, Addr: ip4(c.addr), Port: 7946, Meta: []byte(c.meta), Vsn: defaultVsn}, nil, false)
			case "dead":
				o.M.VDeadNode(&ml.VDead{Incarnation: inc[c.node], Node: c.node, From: "t"})
			case "left":
				o.M.VDeadNode(&ml.VDead{Incarnation: inc[c.node], Node: c.node, From: c.node})
			case "suspect":
				o.M.VSuspectNode(&ml.VSuspect{Incarnation: inc[c.node], Node: c.node, From: "t"})
			case "update":
				o.D.SetMeta([]byte(fmt.Sprintf("own%d", i)))
				_ = o.M.UpdateNode(time.Millisecond)
			}
			advance(time.Microsecond)
		}
		want := rec.Since(0)
		kinds := map[ml.NodeEventType]string{ml.NodeJoin: "join", ml.NodeLeave: "leave", ml.NodeUpdate: "update"}
		for i, w := range want {
			select {
			case ev := <-ch:
				if kinds[ev.Event] != w.Kind || ev.Node.Name != w.Name || string(ev.Node.Meta) != w.Meta || ev.Node.Address() != w.Addr {
					sig, msg = "channel-event-differs", fmt.Sprintf("sequence %v: event %d read from the channel is %s %s meta=%q @%s, the callback delivered %s %s meta=%q @%s", desc, i, kinds[ev.Event], ev.Node.Name, ev.Node.Meta, ev.Node.Address(), w.Kind, w.Name, w.Meta, w.Addr)
					return
				}
			default:
				sig, msg = "channel-event-missing", fmt.Sprintf("sequence %v: %d events delivered, %d in the channel", desc, len(want), i)
				return
			}
		}
		if len(ch) != 0 {
			sig, msg = "channel-event-extra", fmt.Sprintf("sequence %v: %d more events in the channel than callbacks", desc, len(ch))
		}
	})
	if res.Panic != nil && sig == "" {
		sig, msg = "panic", fmt.Sprint(res.Panic)
	}
	return
}

func c07Channel(t *testing.T, rep *Report) {
	depth := 4
	if thorough() {
		depth = 5
	}
	const nMenu = 11
	n := 0
	var rec func(seq []int)
	rec = func(seq []int) {
		if len(seq) > 0 {
			n++
			if mine(900000 + n) {
				journal("C07 channel %v", seq)
				sig, msg := runC07Channel(t, seq)
				rep.Transitions += len(seq)
				rep.AddExtra("channel_sequences", 1)
				if sig != "" {
					rep.Violate("channel:"+sig, msg, c07ChanReplay{append([]int(nil), seq...)})
					rep.Outcome("channel-violation")
				} else {
					rep.Outcome("channel-ok")
				}
			}
		}
		if len(seq) >= depth {
			return
		}
		for k := 0; k < nMenu; k++ {
			rec(append(append([]int(nil), seq...), k))
		}
	}
	rec(nil)
}

func TestC07(t *testing.T) {
	rep := newReport()
	defer rep.Write(t)
	cap := uint32(3)
	c02cap := uint32(9)
	if thorough() {
		cap, c02cap = 4, 16
	}
	worlds := []struct {
		name string
		sc   *swimCheck
	}{
		{"mixed", &swimCheck{wc: worldCfg{Peers: 1, Reclaim: 10e9}, alphabet: c07MixedAlphabet}},
		{"c01-world", &swimCheck{wc: worldCfg{Peers: 2, Reclaim: 10e9}, alphabet: c01Alphabet([]string{"x"}, cap, thorough())}},
		{"c02-world", &swimCheck{wc: worldCfg{Peers: 2}, alphabet: c02Alphabet(c02cap, thorough())}},
		{"c08-peer-world", &swimCheck{wc: worldCfg{Peers: 2, Reclaim: 10e9}, alphabet: c08PeerAlphabet(cap)}},
		{"c08-leaver-world", &swimCheck{wc: worldCfg{Peers: 2}, alphabet: c08LeaverAlphabet}},
		{"c18-world", &swimCheck{wc: worldCfg{Peers: 1, Reclaim: 10e9, CIDRs: []string{"10.0.0.0/8"}}, alphabet: c18Alphabet([]string{"A", "A16", "B", "X4", "X16", "L5"})}},
	}
	rep.Bounds = map[string]any{"worlds": len(worlds), "incarnation_cap": cap}
	rep.Rule = "BFS to fixpoint in each host world with the event monitor as oracle: callbacks never concurrent; per member join (update)* leave; inside every callback (node lock held) and after every transition the replayed log equals the non-dead records / Members() incl. metadata"
	rep.Assumptions = []string{"interleavings of two handlers at lock granularity are not part of this check (Engine T)"}
	if replayT(t, rep, c01TScenarios(true)) {
		return
	}
	var crp c07ChanReplay
	if loadReplay(&crp) && len(crp.Chan) > 0 {
		sig, msg := runC07Channel(t, crp.Chan)
		t.Logf("replay: %q %s", sig, msg)
		if sig != "" {
			rep.Violate("channel:"+sig, msg, crp)
		}
		rep.States, rep.Transitions = 1, len(crp.Chan)
		rep.Samples = append(rep.Samples, crp)
		return
	}
	var rp swimReplay
	replay := loadReplay(&rp)
	for i, wd := range worlds {
		sc := monitored(wd.sc)
		if replay {
			if rp.Cfg != wd.name {
				continue
			}
			sc.runPath(t, rp.Path, func(w *world, ob *stepObs, i int) bool {
				d := w.diffRef(ob)
				sg, m := sc.oracle(w, rp.Path[i], ob)
				t.Logf("step %d %v: ref-diff=%q oracle=%q %s", i, rp.Path[i], d, sg, m)
				if sg != "" {
					rep.Violate("replay:"+sg, m, rp)
				}
				rep.Transitions++
				return true
			})
			rep.States = 1
			rep.Samples = append(rep.Samples, pathStr(rp.Path))
			return
		}
		if !mine(i) {
			continue
		}
		sc.bfs(t, rep, wd.name)
	}
	if !replay {
		// ---- the library's ChannelEventDelegate read lazily: all claim sequences up to the depth
		c07Channel(t, rep)
		// ---- Engine N: the monitors of all nodes of a 3-node cluster through every scripted fault history of C05
		nExecs := 0
		for ai, act := range c05Actions {
			s := c05Scn{N: 3, Action: act, Monitor: true}
			b := 0
			if act == "partition-0|rest-10s" || act == "restart-last-quick" || act == "leave-during-partition" || (thorough() && ai%2 == 0) {
				b = 1
			}
			if b == 0 && !mine(ai) {
				continue
			}
			sidx := 500000 + ai*7919
			exploreN(rep, b, &sidx, func(prefix []int) nExec {
				s2 := s
				s2.Prefix = prefix
				journal("C07 cluster %+v", s2)
				return runC05(t, s2)
			}, func(x nExec) {
				nExecs++
				rep.Transitions += len(x.Pts)
				if x.Verdict != "" {
					s2 := s
					s2.Prefix = x.Choices
					rep.Violate("cluster:"+x.Verdict+":"+act, fmt.Sprintf("action=%s: %s; deviations %v", act, x.Msg, devStr(x.Pts)), s2)
					rep.Outcome("N-violation")
				} else {
					rep.Outcome("N-ok:" + act)
				}
			})
		}
		rep.Extra["cluster_executions"] = nExecs
		tb := 2
		if thorough() {
			tb = 3
		}
		runTSet(t, rep, c01TScenarios(true), tb, 8000, func(v string) bool { return strings.HasPrefix(v, "event-log") || v == "concurrent-callbacks" })
	}
	rep.Distinct = rep.States
	rep.Evaluations = rep.Transitions
}
