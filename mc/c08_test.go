package mc

// C08 — graceful leave is final; names and addresses cannot be hijacked.
// (S, peer side) BFS over a subject's prior states x claimed address (other
// IP, same IP other port) x age x DeadNodeReclaimTime; (S, leaver side)
// Leave on the real node followed by every claim about the leaver.
// The racing part (Leave || accusation) is Engine T (c08 threads).

import (
	"fmt"
	"testing"

	ml "github.com/hashicorp/memberlist"
)

func c08PeerAlphabet(cap uint32) func(w *world) []cev {
	return func(w *world) []cev {
		var out []cev
		s := w.o.M.VSnapshot()
		x := "x"
		h := uint32(1)
		if r := findRec(s, x); r != nil {
			h = r.Incarnation
		}
		for _, i := range []int64{int64(h) - 1, int64(h), int64(h) + 1} {
			if i < 0 || uint32(i) > cap {
				continue
			}
			inc := uint32(i)
			for _, ad := range []string{"A", "B", "AP"} {
				out = append(out, cev{K: "alive", Node: x, Inc: inc, Addr: ad, Meta: "m0", Vsn: "ok", Carrier: "pkt"})
				out = append(out, cev{K: "pp", Node: x, Inc: inc, State: "alive", Addr: ad, Meta: "m1", Vsn: "ok"})
			}
			out = append(out, cev{K: "dead", Node: x, Inc: inc, From: x, Carrier: "pkt"}) // graceful leave
			out = append(out, cev{K: "dead", Node: x, Inc: inc, From: "t", Carrier: "pkt"})
			out = append(out, cev{K: "suspect", Node: x, Inc: inc, From: "t", Carrier: "pkt"})
			out = append(out, cev{K: "suspect", Node: x, Inc: inc, From: x, Carrier: "compound"}) // the leaver's own queued suspect
			out = append(out, cev{K: "pp", Node: x, Inc: inc, State: "left", Addr: "A", Vsn: "ok"})
			out = append(out, cev{K: "pp", Node: x, Inc: inc, State: "dead", Addr: "A", Vsn: "ok"})
		}
		out = append(out, cev{K: "advance", D: "reclaim"}, cev{K: "advance", D: "suspmax"}, cev{K: "advance", D: "gtd"}, cev{K: "reap"}, cev{K: "drain"})
		return out
	}
}

func c08PeerOracle(w *world, e cev, ob *stepObs) (string, string) {
	if e.Node != "x" {
		return "", ""
	}
	before, after := findRec(ob.Before, "x"), findRec(ob.After, "x")
	if before == nil {
		return "", ""
	}
	isAlive := e.K == "alive" || (e.K == "pp" && e.State == "alive")
	if isAlive {
		ip, port := w.resolve("x", e.Addr)
		diff := hostPort(ip, port) != hostPort(before.Addr, before.Port)
		if diff {
			reclaimable := before.State == ml.StateLeft ||
				(before.State == ml.StateDead && w.cfg.Reclaim > 0 && ob.Now.Sub(before.StateChange) > w.cfg.Reclaim)
			if !reclaimable {
				if recStr(before) != recStr(after) {
					return "address-hijack", fmt.Sprintf("%v names existing %s member from another address; record %s -> %s", e, stateName(before.State), recStr(before), recStr(after))
				}
				if ob.Conflicts != 1 {
					return "conflict-callback-count", fmt.Sprintf("%v: conflict callback fired %d times", e, ob.Conflicts)
				}
				if len(ob.Events) != 0 {
					return "conflict-fired-event", fmt.Sprintf("%v: %v", e, ob.Events)
				}
			} else {
				// reusable: accepted at once from the new address
				if after == nil || after.State != ml.StateAlive || hostPort(after.Addr, after.Port) != hostPort(ip, port) {
					return "name-not-reusable", fmt.Sprintf("%v: holder was %s (reclaimable) but record is now %s", e, stateName(before.State), recStr(after))
				}
				if len(ob.Events) != 1 || ob.Events[0].Kind != "join" {
					return "reclaim-no-join-event", fmt.Sprintf("%v: events %v", e, ob.Events)
				}
				if ob.Conflicts != 0 {
					return "reclaim-conflict-callback", fmt.Sprintf("%v", e)
				}
			}
		} else if before.State == ml.StateLeft && e.Inc <= before.Incarnation {
			if recStr(before) != recStr(after) || len(ob.Events) != 0 {
				return "left-member-resurrected", fmt.Sprintf("%v is no newer than the departure (%s) but record became %s, events %v", e, recStr(before), recStr(after), ob.Events)
			}
		}
	}
	// a graceful leave (self-signed dead) not older than what we hold turns a member into "left"
	if (e.K == "dead" && e.From == "x") || (e.K == "pp" && e.State == "left") {
		if (before.State == ml.StateAlive || before.State == ml.StateSuspect) && e.Inc >= before.Incarnation {
			if after == nil || after.State != ml.StateLeft {
				return "leave-recorded-as-failure", fmt.Sprintf("%v: member was %s, now %s", e, recStr(before), recStr(after))
			}
			n := 0
			for _, ev := range ob.Events {
				if ev.Kind == "leave" && ev.Name == "x" {
					n++
				}
			}
			if n != 1 {
				return "leave-event-count", fmt.Sprintf("%v: %d leave events", e, n)
			}
		}
	}
	// a left record never comes back through anything but an alive from a new address or a newer incarnation
	if before.State == ml.StateLeft && after != nil && after.State != ml.StateLeft {
		if !(isAlive) {
			return "left-member-resurrected", fmt.Sprintf("%v changed a left record to %s", e, recStr(after))
		}
	}
	return "", ""
}

// ---- leaver side

func c08LeaverAlphabet(w *world) []cev {
	s := w.o.M.VSnapshot()
	var out []cev
	if !s.Leave {
		// a few pre-leave events so that Leave happens from several states
		own := s.Incarnation
		if own < 3 {
			out = append(out, cev{K: "suspect", Node: "o", Inc: own, From: "t", Carrier: "pkt"})
			// a restarted node that peers remember several incarnations ahead: the refutation skips ahead
			out = append(out, cev{K: "suspect", Node: "o", Inc: own + 3, From: "t", Carrier: "pkt"})
			out = append(out, cev{K: "update", Meta: "om1"})
		}
		out = append(out, cev{K: "dead", Node: "p1", Inc: 1, From: "t", Carrier: "pkt"}, cev{K: "dead", Node: "p2", Inc: 1, From: "p2", Carrier: "pkt"})
		// peers that are merely suspected are still peers the departure has to reach
		out = append(out, cev{K: "suspect", Node: "p1", Inc: 1, From: "t", Carrier: "pkt"}, cev{K: "suspect", Node: "p2", Inc: 1, From: "t", Carrier: "pkt"})
		out = append(out, cev{K: "leave"})
		return out
	}
	me := findRec(s, "o")
	dep := s.Incarnation
	if me != nil {
		dep = me.Incarnation
	}
	incs := []uint32{dep, dep + 1}
	if dep > 0 {
		incs = append(incs, dep-1)
	}
	for _, inc := range incs {
		for _, ad := range []string{"O", "O2"} {
			out = append(out, cev{K: "alive", Node: "o", Inc: inc, Addr: ad, Meta: "om0", Vsn: "ok", Carrier: "pkt"})
			out = append(out, cev{K: "pp", Node: "o", Inc: inc, State: "alive", Addr: ad, Meta: "zz", Vsn: "ok"})
		}
		out = append(out, cev{K: "suspect", Node: "o", Inc: inc, From: "t", Carrier: "pkt"})
		out = append(out, cev{K: "dead", Node: "o", Inc: inc, From: "t", Carrier: "pkt"})
		out = append(out, cev{K: "dead", Node: "o", Inc: inc, From: "o", Carrier: "pkt"})
		for _, st := range []string{"suspect", "dead", "left"} {
			out = append(out, cev{K: "pp", Node: "o", Inc: inc, State: st, Addr: "O", Vsn: "ok"})
		}
	}
	out = append(out, cev{K: "leave"}, cev{K: "drain"})
	return out
}

func c08LeaverOracle(w *world, e cev, ob *stepObs) (string, string) {
	if !ob.After.Leave {
		return "", ""
	}
	if e.K == "leave" {
		if ob.Err != "" {
			return "leave-" + ob.Err, fmt.Sprintf("Leave: %s", ob.Err)
		}
		if !ob.Before.Leave {
			// first Leave: a departure must have been handed to the transport for a live peer
			livePeers := 0
			for _, r := range ob.Before.Recs {
				if r.Name != "o" && (r.State == ml.StateAlive || r.State == ml.StateSuspect) {
					livePeers++
				}
			}
			sentDeparture := false
			for _, p := range ob.SentPkts {
				leaves, err := explode(p.Buf)
				if err != nil {
					continue
				}
				for _, l := range leaves {
					var d ml.VDead
					if l[0] == ml.VDeadMsg && ml.VDecode(l[1:], &d) == nil && d.Node == "o" && d.From == "o" {
						sentDeparture = true
					}
				}
			}
			if livePeers > 0 && !sentDeparture {
				return "leave-not-announced", fmt.Sprintf("Leave returned nil with %d live peers but no departure reached the transport (%d packets)", livePeers, len(ob.SentPkts))
			}
			n := 0
			for _, ev := range ob.Events {
				if ev.Kind == "leave" && ev.Name == "o" {
					n++
				}
			}
			if n != 1 {
				return "leaver-leave-event-count", fmt.Sprintf("%d leave events for self", n)
			}
		} else if len(ob.Events) != 0 || ob.Sent != 0 {
			return "second-leave-not-idempotent", fmt.Sprintf("events %v, %d packets", ob.Events, ob.Sent)
		}
	}
	me := findRec(ob.After, "o")
	if me == nil {
		return "", "" // reaped: C20's business
	}
	if me.State != ml.StateLeft {
		return "leaver-came-back", fmt.Sprintf("after %v the leaver records itself as %s", e, recStr(me))
	}
	for _, n := range ob.MembersAfter {
		if n == "o" {
			return "leaver-lists-itself", fmt.Sprintf("after %v Members()=%v", e, ob.MembersAfter)
		}
	}
	for _, ev := range ob.Events {
		if ev.Name == "o" && ev.Kind != "leave" {
			return "leaver-event", fmt.Sprintf("after %v: %v", e, ev)
		}
	}
	return "", ""
}

func TestC08(t *testing.T) {
	rep := newReport()
	defer rep.Write(t)
	cap := uint32(3)
	if thorough() {
		cap = 4
	}
	rep.Bounds = map[string]any{"incarnation_cap": cap, "reclaim_settings": []string{"0", "10s"}, "peer_alphabet": "alive/pp from same, other-IP and same-IP-other-port address; self-signed and third-party dead; suspect; time; reap; drain", "leaver": "Leave from several pre-states then every claim about the leaver"}
	rep.Rule = "BFS to fixpoint over canonical node states (peer side: two reclaim settings; leaver side); lock-step reference + the statement's address/leave oracle; distinct = canonical states"
	rep.Assumptions = []string{"Leave racing concurrent accusations is covered by the Engine T part", "cluster-level delivery of the leave message under faults is covered by Engine N (C05 world)"}
	checks := []struct {
		name string
		sc   *swimCheck
	}{
		{"peer-reclaim0", &swimCheck{name: "C08", wc: worldCfg{Peers: 2}, alphabet: c08PeerAlphabet(cap), oracle: c08PeerOracle}},
		{"peer-reclaim10s", &swimCheck{name: "C08", wc: worldCfg{Peers: 2, Reclaim: 10e9}, alphabet: c08PeerAlphabet(cap), oracle: c08PeerOracle}},
		{"leaver", &swimCheck{name: "C08", wc: worldCfg{Peers: 2}, alphabet: c08LeaverAlphabet, oracle: c08LeaverOracle}},
		{"leaver-nopeers", &swimCheck{name: "C08", wc: worldCfg{Peers: 0}, alphabet: c08LeaverAlphabet, oracle: c08LeaverOracle}},
	}
	if replayT(t, rep, c08TScenarios()) {
		return
	}
	var rp swimReplay
	replay := loadReplay(&rp)
	for i, c := range checks {
		if replay {
			if rp.Cfg != c.name {
				continue
			}
			c.sc.runPath(t, rp.Path, func(w *world, ob *stepObs, i int) bool {
				d := w.diffRef(ob)
				sg, m := c.sc.oracle(w, rp.Path[i], ob)
				t.Logf("step %d %v: ref-diff=%q oracle=%q %s", i, rp.Path[i], d, sg, m)
				if d != "" || sg != "" {
					rep.Violate("replay:"+sg, d+m, rp)
				}
				rep.Transitions++
				return true
			})
			rep.States = 1
			rep.Samples = append(rep.Samples, pathStr(rp.Path))
			return
		}
		if !mine(i) {
			continue
		}
		c.sc.bfs(t, rep, c.name)
	}
	if !replay {
		tb := 2
		if thorough() {
			tb = 3
		}
		rep.Bounds["T_preemption_bound"] = tb
		runTSet(t, rep, c08TScenarios(), tb, 5000)
	}
	rep.Distinct = rep.States
	rep.Evaluations = rep.Transitions
}
