package mc

// C09 — join/push-pull: mutual, all-or-nothing, vetoable; hearsay never
// kills. Fault enumeration on two real nodes joined through a counting,
// cuttable stream: every state-menu pair under a configuration lattice, the
// stream cut at every byte offset in both directions (close and stall),
// authentication failures, vetoes, crafted remote lists, and the version
// compatibility rule against an independent statement of it.

import (
	"bytes"
	"fmt"
	"net"
	"sort"
	"strings"
	"testing"
	"time"

	ml "github.com/hashicorp/memberlist"
)

type xstate struct {
	St  string // none alive suspect dead left
	Inc uint32
}

func (x xstate) String() string {
	if x.St == "none" {
		return "none"
	}
	return fmt.Sprintf("%s@%d", x.St, x.Inc)
}

func applyX(n *node, x xstate) {
	if x.St == "none" {
		return
	}
	n.M.VAliveNode(&ml.VAlive{Incarnation: x.Inc, Node: "x", Addr: ip4(30), Port: 7946, Meta: []byte("xm"), Vsn: defaultVsn}, nil, false)
	advance(time.Microsecond)
	switch x.St {
	case "suspect":
		n.M.VSuspectNode(&ml.VSuspect{Incarnation: x.Inc, Node: "x", From: "t"})
	case "dead":
		n.M.VDeadNode(&ml.VDead{Incarnation: x.Inc, Node: "x", From: "t"})
	case "left":
		n.M.VDeadNode(&ml.VDead{Incarnation: x.Inc, Node: "x", From: "x"})
	}
	advance(time.Microsecond)
}

type c09Cfg struct {
	L      lat
	Merge  string // none accept veto-host veto-initiator
	Join   bool
	AX, BX xstate
	// Earlier: "" | left-other-port | left-other-ip: the host remembers the joiner's NAME from an
	// earlier life (higher incarnation, other address) that ended with a graceful leave
	Earlier string `json:",omitempty"`
}

func (c c09Cfg) String() string {
	e := ""
	if c.Earlier != "" {
		e = " host-remembers-joiner:" + c.Earlier
	}
	return fmt.Sprintf("[%v] merge=%s join=%v a:x=%v b:x=%v%s", c.L, c.Merge, c.Join, c.AX, c.BX, e)
}

func listed(n *node, name string) bool {
	for _, m := range n.M.Members() {
		if m.Name == name {
			return true
		}
	}
	return false
}

func nodeDigest(n *node) string {
	s := n.M.VSnapshot()
	var sb strings.Builder
	for i := range s.Recs {
		sb.WriteString(recStr(&s.Recs[i]))
		sb.WriteString("|")
	}
	fmt.Fprintf(&sb, "own%d q[%s] ev%d merged%d msgs%d", s.Incarnation, queueFull(s), n.Ev.Len(), len(n.D.Merged), len(n.D.Msgs))
	return sb.String()
}

type c09World struct {
	p      *pair
	a, bn  *node
	mergeA *mergeRec
	mergeB *mergeRec
}

func newC09World(b *bubble, c c09Cfg, diffKeys bool, diffLabel bool) *c09World {
	w := &c09World{mergeA: &mergeRec{}, mergeB: &mergeRec{}}
	an, _ := pairNames(c.L)
	w.p = newPairOpt(b, c.L, false, func(name string, cf *ml.Config) {
		cf.TCPTimeout = 10 * time.Second
		isA := name == an
		if c.Merge != "none" {
			if isA {
				cf.Merge = w.mergeA
			} else {
				cf.Merge = w.mergeB
			}
		}
		if diffKeys && isA && cf.Keyring != nil {
			kr, _ := ml.NewKeyring(nil, bytes.Repeat([]byte{0x77}, c.L.KeyLen))
			cf.Keyring = kr
		}
		if diffLabel && isA {
			cf.Label = cf.Label + "x"
		}
	})
	w.a, w.bn = w.p.s, w.p.r
	w.mergeA.Veto = c.Merge == "veto-initiator"
	w.mergeB.Veto = c.Merge == "veto-host"
	w.a.D.Local, w.bn.D.Local = []byte("a-user-state"), []byte("b-user-state")
	applyX(w.a, c.AX)
	applyX(w.bn, c.BX)
	if c.Earlier != "" {
		ip, port := net.IP(ip4(1)), uint16(7000)
		if c.Earlier == "left-other-ip" {
			ip, port = ip4(77), 7946
		}
		v := w.a.Cfg.BuildVsnArray()
		w.bn.M.VAliveNode(&ml.VAlive{Incarnation: 5, Node: w.a.Name, Addr: ip, Port: port, Vsn: v}, nil, false)
		w.bn.M.VDeadNode(&ml.VDead{Incarnation: 5, Node: w.a.Name, From: w.a.Name})
		advance(time.Microsecond)
	}
	w.p.drainQueues()
	return w
}

// exchange runs Join (or a plain push/pull) from a to b to completion.
func (w *c09World) exchange(join bool, wait time.Duration) (n int, err error) {
	done := make(chan struct{})
	go func() {
		if join {
			n, err = w.a.M.Join([]string{string(w.bn.Addr)})
		} else {
			err = w.a.M.VPushPullNode(string(w.bn.Addr), w.bn.Name, false)
			if err == nil {
				n = 1
			}
		}
		close(done)
	}()
	settle()
	if wait > 0 {
		time.Sleep(wait)
		settle()
	}
	select {
	case <-done:
	default:
		time.Sleep(25 * time.Second)
		settle()
		<-done
	}
	settle()
	return
}

// hearsayCheck: a remote dead/suspect entry about x never removes x.
func hearsayCheck(self *node, before *ml.VSnap, remote xstate, who string) string {
	rb := findRec(before, "x")
	if rb == nil || !(rb.State == ml.StateAlive || rb.State == ml.StateSuspect) {
		return ""
	}
	if remote.St != "dead" && remote.St != "suspect" {
		return ""
	}
	if !listed(self, "x") {
		return fmt.Sprintf("%s listed x before the exchange; the peer's claim that x is %s removed it directly", who, remote.St)
	}
	ra := findRec(self.M.VSnapshot(), "x")
	if ra.State == ml.StateDead || ra.State == ml.StateLeft {
		return fmt.Sprintf("%s records x as %s after hearsay", who, stateName(ra.State))
	}
	if rb.State == ml.StateAlive {
		wantSuspect := remote.Inc >= rb.Incarnation
		if wantSuspect != (ra.State == ml.StateSuspect && ra.HasTimer) {
			return fmt.Sprintf("%s: x was alive@%d, peer says %s@%d, record now %s", who, rb.Incarnation, remote.St, remote.Inc, recStr(ra))
		}
	}
	return ""
}

type c09Replay struct {
	Cfg  c09Cfg `json:"cfg"`
	Kind string `json:"kind"`
	Dir  string `json:"dir"`
	K    int    `json:"k"`
	Mode string `json:"mode"`
}

func runC09Intact(t *testing.T, c c09Cfg, rep *Report) (reqLen, replyLen int) {
	res := inBubble(t, func(b *bubble) {
		installDetRand()
		w := newC09World(b, c, false, false)
		aBefore, bBefore := w.a.M.VSnapshot(), w.bn.M.VSnapshot()
		aDig, bDig := nodeDigest(w.a), nodeDigest(w.bn)
		n, err := w.exchange(c.Join, 0)
		if len(w.p.StreamsS2R) > 0 {
			reqLen, replyLen = len(w.p.StreamsS2R[0]), len(w.p.StreamsR2S[0])
		}
		rp := c09Replay{Cfg: c, Kind: "intact"}
		// whoever was asked must have been shown the other side's complete list, entry by entry
		if c.Join && c.Merge != "none" {
			shownOK := func(mg *mergeRec, other *ml.VSnap) string {
				if mg.Calls == 0 {
					return ""
				}
				var want []string
				for i := range other.Recs {
					r := &other.Recs[i]
					want = append(want, fmt.Sprintf("%s|%s|%s|%d", r.Name, net.JoinHostPort(net.IP(r.Addr).String(), fmt.Sprint(r.Port)), r.Meta, r.State))
				}
				got := append([]string(nil), mg.LastFull...)
				sort.Strings(want)
				sort.Strings(got)
				if strings.Join(want, ";") != strings.Join(got, ";") {
					return fmt.Sprintf("shown [%s], the peer's list was [%s]", strings.Join(got, "; "), strings.Join(want, "; "))
				}
				return ""
			}
			if m := shownOK(w.mergeB, aBefore); m != "" {
				rep.Violate("merge-delegate-shown-wrong-list:host", fmt.Sprintf("%v: %s", c, m), rp)
			}
			if m := shownOK(w.mergeA, bBefore); m != "" {
				rep.Violate("merge-delegate-shown-wrong-list:initiator", fmt.Sprintf("%v: %s", c, m), rp)
			}
		}
		vetoed := c.Join && (c.Merge == "veto-host" || c.Merge == "veto-initiator")
		if c.Join && c.Merge == "veto-initiator" {
			if n != 0 || err == nil {
				rep.Violate("veto-ignored:initiator", fmt.Sprintf("%v: Join counted %d although the initiator's merge delegate vetoed", c, n), rp)
			}
			if nodeDigest(w.a) != aDig {
				rep.Violate("vetoed-exchange-changed-state:initiator", fmt.Sprintf("%v", c), rp)
			}
		}
		if c.Join && c.Merge == "veto-host" {
			if nodeDigest(w.bn) != bDig {
				rep.Violate("vetoed-exchange-changed-state:host", fmt.Sprintf("%v: %s -> %s", c, bDig, nodeDigest(w.bn)), rp)
			}
		}
		if !vetoed {
			if n != 1 || err != nil {
				rep.Violate("intact-exchange-failed", fmt.Sprintf("%v: n=%d err=%v", c, n, err), rp)
				return
			}
			// mutual
			if !listed(w.a, w.bn.Name) {
				rep.Violate("joiner-does-not-list-host", fmt.Sprintf("%v", c), rp)
			}
			if !listed(w.bn, w.a.Name) {
				rep.Violate("host-does-not-list-joiner", fmt.Sprintf("%v", c), rp)
			}
			// everything b reported alive is listed by a, subject to a's own precedence rules
			if c.BX.St == "alive" {
				ra := findRec(aBefore, "x")
				must := ra == nil || ra.Incarnation < c.BX.Inc || ra.State == ml.StateAlive || ra.State == ml.StateSuspect
				if must && !listed(w.a, "x") {
					rep.Violate("joiner-misses-reported-member", fmt.Sprintf("%v: host reported x alive@%d, joiner held %s, does not list it", c, c.BX.Inc, recStr(ra)), rp)
				}
			}
			if c.AX.St == "alive" {
				rb := findRec(bBefore, "x")
				must := rb == nil || rb.Incarnation < c.AX.Inc || rb.State == ml.StateAlive || rb.State == ml.StateSuspect
				if must && !listed(w.bn, "x") {
					rep.Violate("host-misses-reported-member", fmt.Sprintf("%v", c), rp)
				}
			}
			if m := hearsayCheck(w.a, aBefore, c.BX, "joiner"); m != "" {
				rep.Violate("hearsay-killed-member", fmt.Sprintf("%v: %s", c, m), rp)
			}
			if m := hearsayCheck(w.bn, bBefore, c.AX, "host"); m != "" {
				rep.Violate("hearsay-killed-member", fmt.Sprintf("%v: %s", c, m), rp)
			}
			if len(w.a.D.Merged) != 1 || string(w.a.D.Merged[0]) != "b-user-state" || len(w.bn.D.Merged) != 1 || string(w.bn.D.Merged[0]) != "a-user-state" {
				rep.Violate("user-state-not-exchanged", fmt.Sprintf("%v", c), rp)
			}
			rep.Outcome("intact-ok")
		} else {
			rep.Outcome("vetoed-ok")
		}
	})
	if res.Panic != nil {
		rep.Violate("panic", fmt.Sprintf("%v: %v", c, res.Panic), nil)
	}
	if res.Leak {
		rep.Violate("goroutine-leak", fmt.Sprintf("%v", c), nil)
	}
	return
}

// runC09Cut cuts direction dir ("request": a->b, "reply": b->a) after k bytes.
func runC09Cut(t *testing.T, c c09Cfg, dir string, k int, mode string, rep *Report) {
	rp := c09Replay{Cfg: c, Kind: "cut", Dir: dir, K: k, Mode: mode}
	res := inBubble(t, func(b *bubble) {
		installDetRand()
		w := newC09World(b, c, false, false)
		w.p.OnPipe = func(c1, c2 *simConn) {
			if dir == "request" {
				c1.CutAfter(k, mode == "stall")
			} else {
				c2.CutAfter(k, mode == "stall")
			}
		}
		aDig, bDig := nodeDigest(w.a), nodeDigest(w.bn)
		n, err := w.exchange(c.Join, 0)
		time.Sleep(25 * time.Second)
		settle()
		if n != 0 || err == nil {
			rep.Violate("cut-exchange-counted:"+dir, fmt.Sprintf("%v: %s cut after %d bytes (%s) but the initiator reported success", c, dir, k, mode), rp)
		}
		if nodeDigest(w.a) != aDig {
			rep.Violate("cut-exchange-changed-state:initiator:"+dir, fmt.Sprintf("%v: %s cut after %d bytes (%s): initiator %s -> %s", c, dir, k, mode, aDig, nodeDigest(w.a)), rp)
		}
		if dir == "request" && nodeDigest(w.bn) != bDig {
			rep.Violate("cut-exchange-changed-state:host", fmt.Sprintf("%v: request cut after %d bytes (%s): host %s -> %s", c, k, mode, bDig, nodeDigest(w.bn)), rp)
		}
		if s := w.bn.M.VSnapshot(); s.PushPullReq != 0 {
			rep.Violate("pushpull-counter-leaked", fmt.Sprintf("%v", c), rp)
		}
		// the host's end must always be released (the initiator's own end after a failed
		// label-header write is outside what C09 states and is only counted)
		for i, cn := range b.conns {
			if !cn.IsClosed() {
				if i%2 == 1 {
					rep.Violate("cut-stream-left-open:host", fmt.Sprintf("%v: %s cut after %d (%s)", c, dir, k, mode), rp)
				} else {
					rep.AddExtra("initiator_conn_left_open_after_failed_label_write", 1)
				}
				break
			}
		}
		rep.Outcome("cut-" + dir + "-" + mode)
	})
	if res.Panic != nil {
		rep.Violate("panic", fmt.Sprintf("%v cut %s@%d: %v", c, dir, k, res.Panic), rp)
	}
	if res.Leak {
		rep.Violate("goroutine-leak", fmt.Sprintf("%v cut %s@%d %s", c, dir, k, mode), rp)
	}
}

func runC09Auth(t *testing.T, c c09Cfg, kind string, rep *Report) {
	res := inBubble(t, func(b *bubble) {
		installDetRand()
		w := newC09World(b, c, kind == "wrong-key", kind == "wrong-label")
		aDig, bDig := nodeDigest(w.a), nodeDigest(w.bn)
		n, err := w.exchange(c.Join, 0)
		if n != 0 || err == nil {
			rep.Violate("unauthenticated-exchange-counted:"+kind, fmt.Sprintf("%v", c), nil)
		}
		if nodeDigest(w.a) != aDig || nodeDigest(w.bn) != bDig {
			rep.Violate("unauthenticated-exchange-changed-state:"+kind, fmt.Sprintf("%v: a changed=%v b changed=%v", c, nodeDigest(w.a) != aDig, nodeDigest(w.bn) != bDig), nil)
		}
		rep.Outcome("auth-" + kind)
	})
	if res.Panic != nil || res.Leak {
		rep.Violate("panic-or-leak", fmt.Sprintf("%v %s: %v", c, kind, res.Panic), nil)
	}
}

// ---- version compatibility rule, independent statement

type vt [6]uint8

func refVerify(localAlive []vt, localAll []vt, remote []struct {
	v     []uint8
	alive bool
}) bool {
	maxpmin, minpmax, maxdmin, mindmax := uint8(0), uint8(255), uint8(0), uint8(255)
	upd := func(v []uint8) {
		if v[0] > maxpmin {
			maxpmin = v[0]
		}
		if v[1] < minpmax {
			minpmax = v[1]
		}
		if v[3] > maxdmin {
			maxdmin = v[3]
		}
		if v[4] < mindmax {
			mindmax = v[4]
		}
	}
	for _, r := range remote {
		if r.alive && len(r.v) >= 5 {
			upd(r.v)
		}
	}
	for _, l := range localAlive {
		upd(l[:])
	}
	in := func(p, d uint8) bool { return p >= maxpmin && p <= minpmax && d >= maxdmin && d <= mindmax }
	for _, r := range remote {
		var p, d uint8
		if len(r.v) >= 6 {
			p, d = r.v[2], r.v[5]
		}
		if !in(p, d) {
			return false
		}
	}
	for _, l := range localAll {
		if !in(l[2], l[5]) {
			return false
		}
	}
	return true
}

func runC09Versions(t *testing.T, rep *Report) {
	vals := []uint8{0, 1, 2, 3, 5, 255}
	base := vt{1, 5, 2, 0, 0, 0}
	variants := func(maxDiff int) []vt {
		out := []vt{base}
		for i := 0; i < 6; i++ {
			for _, a := range vals {
				if a == base[i] {
					continue
				}
				v := base
				v[i] = a
				out = append(out, v)
				if maxDiff >= 2 {
					for j := i + 1; j < 6; j++ {
						for _, bb := range vals {
							if bb == base[j] {
								continue
							}
							v2 := v
							v2[j] = bb
							out = append(out, v2)
						}
					}
				}
			}
		}
		return out
	}
	one, two := variants(1), variants(2)
	idx := 2000
	for li, lv := range one {
		idx++
		if !mine(idx) {
			continue
		}
		inBubble(t, func(b *bubble) {
			nd, err := newNode("o", ip4(1))
			must(err)
			o := b.track(nd)
			advance(time.Microsecond)
			// a local alive peer with version tuple lv (alive claims with pmin=0/pmax=0/pmin>pmax are refused upstream)
			// history: the peer was first known with the base range and re-announced itself (still alive) with lv
			o.M.VAliveNode(&ml.VAlive{Incarnation: 1, Node: "lp", Addr: ip4(70), Port: 7946, Vsn: base[:]}, nil, false)
			advance(time.Microsecond)
			o.M.VAliveNode(&ml.VAlive{Incarnation: 2, Node: "lp", Addr: ip4(70), Port: 7946, Vsn: lv[:]}, nil, false)
			advance(time.Microsecond)
			if r := findRec(o.M.VSnapshot(), "lp"); r != nil && r.Incarnation == 2 && r.Vsn != [6]uint8(lv) {
				rep.Violate("version-vector-not-updated", fmt.Sprintf("peer re-announced %v at a newer incarnation, record keeps %v", lv, r.Vsn), nil)
			}
			snap := o.M.VSnapshot()
			var localAlive, localAll []vt
			for _, r := range snap.Recs {
				localAll = append(localAll, vt(r.Vsn))
				if r.State == ml.StateAlive {
					localAlive = append(localAlive, vt(r.Vsn))
				}
			}
			dig := nodeDigest(o)
			for ri, rv := range two {
				for _, r2 := range []struct {
					v     []uint8
					alive bool
				}{{base[:], true}, {one[(li+ri)%len(one)][:], true}, {one[(li+ri)%len(one)][:], false}, {[]uint8{1, 5, 2}, true}, {nil, true}} {
					journal("C09 versions local=%v remote=%v,%v", lv, rv, r2)
					rep.Evaluations++
					remote := []struct {
						v     []uint8
						alive bool
					}{{rv[:], true}, r2}
					want := refVerify(localAlive, localAll, remote)
					ps := []ml.VPushNodeState{{Name: "r1", Addr: ip4(71), Port: 7946, Incarnation: 1, State: ml.StateAlive, Vsn: remote[0].v}}
					st := ml.StateAlive
					if !r2.alive {
						st = ml.StateDead
					}
					ps = append(ps, ml.VPushNodeState{Name: "r2", Addr: ip4(72), Port: 7946, Incarnation: 1, State: st, Vsn: r2.v})
					got := o.M.VVerifyProtocol(ps) == nil
					if got != want {
						rep.Violate("version-rule", fmt.Sprintf("local peer %v, remote %v + %v(alive=%v): accepted=%v, rule says %v", lv, rv, r2.v, r2.alive, got, want), nil)
					}
					if !want {
						// an incompatible exchange must change nothing
						for _, join := range []bool{true, false} {
							if err := o.M.VMergeRemoteState(join, ps, []byte("u")); err == nil || nodeDigest(o) != dig {
								rep.Violate(fmt.Sprintf("incompatible-exchange-merged:join=%v", join), fmt.Sprintf("local peer %v, remote %v + %v: err=%v", lv, rv, r2.v, err), nil)
								return
							}
						}
						rep.Outcome("versions-rejected")
					} else {
						rep.Outcome("versions-accepted")
					}
				}
			}
		})
	}
}

// crafted remote lists delivered as a genuine push/pull stream to b
func runC09Crafted(t *testing.T, rep *Report) {
	type crafted struct {
		desc  string
		nodes []ml.VPushNodeState
		join  bool
	}
	al := func(name string, inc uint32, ip byte, vsn []uint8) ml.VPushNodeState {
		return ml.VPushNodeState{Name: name, Addr: ip4(ip), Port: 7946, Incarnation: inc, State: ml.StateAlive, Vsn: vsn, Meta: []byte("m")}
	}
	self := func(st ml.NodeStateType, inc uint32) ml.VPushNodeState {
		return ml.VPushNodeState{Name: twinR, Addr: ip4(2), Port: 7946, Incarnation: inc, State: st, Vsn: defaultVsn}
	}
	cases := []crafted{
		{"duplicate entries", []ml.VPushNodeState{al("d", 2, 80, defaultVsn), al("d", 2, 80, defaultVsn), al("d", 1, 81, defaultVsn)}, true},
		{"entry about the receiver: dead", []ml.VPushNodeState{al(twinS, 1, 1, defaultVsn), self(ml.StateDead, 1)}, false},
		{"entry about the receiver: left", []ml.VPushNodeState{al(twinS, 1, 1, defaultVsn), self(ml.StateLeft, 5)}, true},
		{"entry about the receiver: suspect far ahead", []ml.VPushNodeState{self(ml.StateSuspect, 1000)}, false},
		{"short version vector", []ml.VPushNodeState{al("sv", 1, 82, []uint8{1, 5, 2})}, false},
		{"zero version vector", []ml.VPushNodeState{al("zv", 1, 83, []uint8{0, 0, 0, 0, 0, 0})}, false},
		{"empty version vector", []ml.VPushNodeState{al("ev", 1, 84, nil)}, true},
		{"victim dead + victim suspect + victim alive older", []ml.VPushNodeState{{Name: "victim", Addr: ip4(30), Port: 7946, Incarnation: 1, State: ml.StateDead, Vsn: defaultVsn}, {Name: "victim", Addr: ip4(30), Port: 7946, Incarnation: 1, State: ml.StateSuspect, Vsn: defaultVsn}, al("victim", 0, 30, defaultVsn)}, false},
		{"empty list", nil, true},
	}
	for ci, cc := range cases {
		if !mine(3000 + ci) {
			continue
		}
		for _, cfg := range []rcfg{{EncVsn: 1}, {Keys: "K1", Label: "ab", EncVsn: 1, Comp: true}} {
			journal("C09 crafted %s %v", cc.desc, cfg)
			rep.Evaluations++
			res := inBubble(t, func(b *bubble) {
				rcv := newReceiver(b, cfg)
				buf := bytes.NewBuffer(nil)
				hdr, _ := ml.VEncode(ml.VPushPullMsg, &ml.VPushPullHeader{Nodes: len(cc.nodes), UserStateLen: 0, Join: cc.join}, false)
				buf.Write(hdr)
				for i := range cc.nodes {
					e, _ := ml.VEncode(0, &cc.nodes[i], false)
					buf.Write(e[1:])
				}
				plain := buf.Bytes()
				if cfg.Comp {
					z, _ := ml.VCompressPayload(plain, false)
					plain = z
				}
				before := rcv.n.M.VSnapshot()
				reply, hc := rcv.injectStream(wrapStream(cfg, plain), false, time.Second)
				if cls := rcv.classifyReply(reply); cls != "state-reply" {
					rep.Violate("crafted-list-not-answered", fmt.Sprintf("%s %v: reply %s", cc.desc, cfg, cls), nil)
				}
				_ = hc
				// the receiver is running and has not left: it must still list itself alive
				me := findRec(rcv.n.M.VSnapshot(), twinR)
				if me == nil || me.State != ml.StateAlive || !listed(rcv.n, twinR) {
					rep.Violate("crafted-list-killed-receiver", fmt.Sprintf("%s: %s", cc.desc, recStr(me)), nil)
				}
				// hearsay about victim
				if v := findRec(rcv.n.M.VSnapshot(), "victim"); v == nil || v.State == ml.StateDead || v.State == ml.StateLeft || !listed(rcv.n, "victim") {
					rep.Violate("hearsay-killed-member", fmt.Sprintf("%s: victim is %s", cc.desc, recStr(v)), nil)
				}
				if cc.desc == "duplicate entries" {
					d := findRec(rcv.n.M.VSnapshot(), "d")
					if d == nil || d.Incarnation != 2 || hostPort(d.Addr, d.Port) != "10.0.0.80:7946" {
						rep.Violate("duplicate-entries", recStr(d), nil)
					}
				}
				_ = before
				rcv.retire()
				rep.Outcome("crafted-ok")
			})
			if res.Panic != nil || res.Leak {
				rep.Violate("panic-or-leak", fmt.Sprintf("%s: %v leak=%v", cc.desc, res.Panic, res.Leak), nil)
			}
		}
	}
}

func TestC09(t *testing.T) {
	rep := newReport()
	defer rep.Write(t)
	rep.Rule = "(1) intact Join / push-pull for every pair of third-member states (5 x 7) under encryption{off,v1,v0} x compression x label{none,5 B,255 B} x merge delegate{none,accept,veto at host,veto at initiator} x join flag; (2) the stream cut at every byte offset of the request and of the reply, cut-then-close and cut-then-stall; (3) wrong key / wrong label; (5) crafted remote lists (duplicates, entries about the receiver, short/zero/empty version vectors, contradictory entries); (6) the version rule on all tuples differing from a valid base in <= 2 fields for one remote node x <= 1 field for a local peer and a second remote node (alive and dead)"
	rep.Assumptions = []string{"size caps and bit-level tampering of the stream are covered by C13 and C14", "when only the reply is damaged the host has legitimately merged the intact request: not judged", "a remote left entry removes the member at once (self-signed departure relayed): exercised, judged under C08"}
	if replayT(t, rep, c09TScenarios()) {
		return
	}
	var rp c09Replay
	if loadReplay(&rp) {
		switch rp.Kind {
		case "intact":
			runC09Intact(t, rp.Cfg, rep)
		case "cut":
			runC09Cut(t, rp.Cfg, rp.Dir, rp.K, rp.Mode, rep)
		}
		rep.Evaluations, rep.Distinct = 1, 2
		rep.Samples = append(rep.Samples, rp)
		return
	}
	lats := []lat{}
	for _, e := range []struct {
		e string
		k int
	}{{"off", 0}, {"v1", 16}, {"v0", 32}} {
		for _, comp := range []bool{false, true} {
			for _, lb := range []string{"", "label", strings.Repeat("z", 255)} {
				lats = append(lats, lat{Enc: e.e, KeyLen: e.k, Comp: comp, Label: lb, IPNames: true})
			}
		}
	}
	axs := []xstate{{"none", 0}, {"alive", 3}, {"suspect", 3}, {"dead", 3}, {"left", 3}}
	bxs := []xstate{{"none", 0}, {"alive", 3}, {"suspect", 3}, {"dead", 3}, {"left", 3}, {"alive", 5}, {"dead", 2}}
	idx := 0
	// ---- (1) intact
	for li, l := range lats {
		for _, mg := range []string{"none", "accept", "veto-host", "veto-initiator"} {
			for _, join := range []bool{true, false} {
				for ai, ax := range axs {
					for bi, bx := range bxs {
						// full state product on the first lattice cells, a covering diagonal elsewhere
						if li > 1 && (ai+bi+li)%4 != 0 {
							continue
						}
						if mg != "none" && (ai+2*bi)%5 != 0 {
							continue
						}
						idx++
						if !mine(idx) {
							continue
						}
						c := c09Cfg{L: l, Merge: mg, Join: join, AX: ax, BX: bx}
						journal("C09 intact %v", c)
						rep.Evaluations++
						runC09Intact(t, c, rep)
					}
				}
			}
		}
	}
	// ---- (1b) the joiner's name is remembered by the host from an earlier life that left gracefully
	for li, l := range lats {
		if li > 1 {
			break
		}
		for _, earlier := range []string{"left-other-port", "left-other-ip"} {
			for _, join := range []bool{true, false} {
				idx++
				if !mine(idx) {
					continue
				}
				c := c09Cfg{L: l, Merge: "none", Join: join, AX: axs[0], BX: bxs[0], Earlier: earlier}
				journal("C09 intact %v", c)
				rep.Evaluations++
				runC09Intact(t, c, rep)
			}
		}
	}
	// ---- (2) cuts
	cutCfgs := []c09Cfg{
		{L: lat{Enc: "off", Comp: false, Label: "", IPNames: true}, Merge: "none", Join: true, AX: xstate{"alive", 3}, BX: xstate{"dead", 3}},
		{L: lat{Enc: "v1", KeyLen: 16, Comp: true, Label: "label", IPNames: true}, Merge: "accept", Join: true, AX: xstate{"none", 0}, BX: xstate{"alive", 5}},
		{L: lat{Enc: "v0", KeyLen: 32, Comp: false, Label: "label", IPNames: true}, Merge: "none", Join: false, AX: xstate{"left", 3}, BX: xstate{"alive", 3}},
		{L: lat{Enc: "off", Comp: true, Label: strings.Repeat("z", 255), IPNames: true}, Merge: "none", Join: true, AX: xstate{"dead", 3}, BX: xstate{"none", 0}},
	}
	for ci, c := range cutCfgs {
		if !thorough() && ci >= 3 {
			break
		}
		reqLen, replyLen := runC09Intact(t, c, newReport())
		rep.Extra[fmt.Sprintf("cutcfg%d_request_bytes", ci)] = fmt.Sprint(reqLen)
		rep.Extra[fmt.Sprintf("cutcfg%d_reply_bytes", ci)] = fmt.Sprint(replyLen)
		for _, dir := range []string{"request", "reply"} {
			n := reqLen
			if dir == "reply" {
				n = replyLen
			}
			for k := 0; k < n; k++ {
				for _, mode := range []string{"close", "stall"} {
					if !thorough() && mode == "stall" && k%4 != 0 {
						continue
					}
					idx++
					if !mine(idx) {
						continue
					}
					journal("C09 cut %v %s@%d %s", c, dir, k, mode)
					rep.Evaluations++
					runC09Cut(t, c, dir, k, mode, rep)
				}
			}
		}
	}
	// ---- (3) authentication
	for _, c := range []c09Cfg{
		{L: lat{Enc: "v1", KeyLen: 16, Label: "label", IPNames: true}, Merge: "none", Join: true, AX: xstate{"alive", 3}, BX: xstate{"alive", 5}},
		{L: lat{Enc: "v0", KeyLen: 32, Comp: true, IPNames: true}, Merge: "none", Join: false, AX: xstate{"none", 0}, BX: xstate{"dead", 3}},
		{L: lat{Enc: "off", Label: "label", IPNames: true}, Merge: "none", Join: true, AX: xstate{"alive", 3}, BX: xstate{"none", 0}},
	} {
		for _, kind := range []string{"wrong-key", "wrong-label"} {
			if kind == "wrong-key" && c.L.Enc == "off" {
				continue
			}
			idx++
			if !mine(idx) {
				continue
			}
			journal("C09 auth %v %s", c, kind)
			rep.Evaluations++
			runC09Auth(t, c, kind, rep)
		}
	}
	runC09Crafted(t, rep)
	runC09HostileHost(t, rep)
	runC09Versions(t, rep)
	// ---- (7) concurrent gossip, Engine T
	tscs := c09TScenarios()
	if !thorough() {
		var sub []tScenario
		for i, sc := range tscs {
			if i%3 == 0 {
				sub = append(sub, sc)
			}
		}
		tscs = sub
	}
	tb := 1
	if thorough() {
		tb = 2
	}
	runTSet(t, rep, tscs, tb, 13000)
	rep.Distinct = rep.Evaluations
	rep.Sample(map[string]any{"intact": c09Cfg{L: lats[4], Merge: "veto-host", Join: true, AX: axs[1], BX: bxs[3]}.String(), "cut": "request cut at byte 41 then stall; reply cut at byte 7 then close"})
}

// runC09HostileHost: the harness answers a real initiator's Join with a crafted
// reply. A veto of the initiator's merge delegate must hold whatever the reply
// header claims (Join flag false/true), and a malformed / incompatible reply
// must change nothing.
func runC09HostileHost(t *testing.T, rep *Report) {
	type hh struct {
		desc     string
		joinFlag bool
		veto     bool
		vsn      []uint8
		wantOK   bool
		kind     string // "": a state list; "errmsg": the generic error reply; "wrongtype": a state list announced under another message type
		addr     string // what the application passes to Join ("" = 10.0.0.2:7946)
		noDial   bool   // the address is malformed: Join must fail without contacting anybody
	}
	cases := []hh{
		{desc: "host answers with the generic error reply", joinFlag: true, vsn: defaultVsn, kind: "errmsg"},
		{desc: "host announces its state list under the user-message type", joinFlag: true, vsn: defaultVsn, kind: "wrongtype"},
		{desc: "Join given a bare IP (default port)", joinFlag: true, vsn: defaultVsn, wantOK: true, addr: "10.0.0.2"},
		{desc: "Join given name/ip:port", joinFlag: true, vsn: defaultVsn, wantOK: true, addr: twinR + "/10.0.0.2:7946"},
		{desc: "Join given name/ip", joinFlag: true, vsn: defaultVsn, wantOK: true, addr: twinR + "/10.0.0.2"},
		{desc: "Join given an empty node name", joinFlag: true, vsn: defaultVsn, addr: "/10.0.0.2:7946", noDial: true},
		{desc: "Join given a port out of range", joinFlag: true, vsn: defaultVsn, addr: "10.0.0.2:99999", noDial: true},
		{desc: "reply Join=true, initiator vetoes", joinFlag: true, veto: true, vsn: defaultVsn},
		{desc: "reply Join=false, initiator vetoes", veto: true, vsn: defaultVsn},
		{desc: "reply Join=false, initiator accepts", vsn: defaultVsn, wantOK: true},
		{desc: "reply lists a node with an incompatible version range", joinFlag: true, vsn: []uint8{4, 5, 4, 0, 0, 0}},
	}
	for ci, c := range cases {
		if !mine(4000 + ci) {
			continue
		}
		for _, cfg := range []rcfg{{EncVsn: 1}, {Keys: "K1", Label: "ab", EncVsn: 1}} {
			journal("C09 hostile host %s %v", c.desc, cfg)
			rep.Evaluations++
			res := inBubble(t, func(b *bubble) {
				mg := &mergeRec{Veto: c.veto}
				an, err := newNode(twinS, ip4(1), func(cf *ml.Config) { cfg.apply(cf); cf.Merge = mg; cf.TCPTimeout = 2 * time.Second })
				must(err)
				a := b.track(an)
				advance(time.Microsecond)
				dials := 0
				a.T.OnDial = func(ad ml.Address, d time.Duration) (net.Conn, error) {
					dials++
					if ad.Addr != "10.0.0.2:7946" {
						rep.Violate("hostile-host:dialled-elsewhere", fmt.Sprintf("%s %v: dialled %q", c.desc, cfg, ad.Addr), nil)
					}
					c1, c2 := simPipe(a.Addr, simAddr(ad.Addr))
					b.conns = append(b.conns, c1, c2)
					go func() {
						buf := make([]byte, 65536)
						_, _ = c2.Read(buf) // swallow the request
						nodes := []ml.VPushNodeState{
							{Name: twinR, Addr: ip4(2), Port: 7946, Incarnation: 1, State: ml.StateAlive, Vsn: c.vsn},
							{Name: "extra", Addr: ip4(33), Port: 7946, Incarnation: 1, State: ml.StateAlive, Vsn: c.vsn},
						}
						out := bytes.NewBuffer(nil)
						mt := ml.VPushPullMsg
						if c.kind == "wrongtype" {
							mt = ml.VUserMsg
						}
						hdr, _ := ml.VEncode(mt, &ml.VPushPullHeader{Nodes: len(nodes), UserStateLen: 0, Join: c.joinFlag}, false)
						out.Write(hdr)
						for i := range nodes {
							e, _ := ml.VEncode(0, &nodes[i], false)
							out.Write(e[1:])
						}
						if c.kind == "errmsg" {
							out.Reset()
							e, _ := ml.VEncode(ml.VErrMsg, &ml.VErrResp{Error: "go away"}, false)
							out.Write(e)
						}
						// the accepting side writes no label header but seals with the label
						framed := wrapStream(rcfg{Keys: cfg.Keys, Label: cfg.Label, EncVsn: cfg.EncVsn}, out.Bytes())
						if cfg.Label != "" {
							framed = framed[2+len(cfg.Label):]
						}
						_, _ = c2.Write(framed)
					}()
					return c1, nil
				}
				dig := nodeDigest(a)
				var n int
				var jerr error
				done := make(chan struct{})
				jaddr := c.addr
				if jaddr == "" {
					jaddr = "10.0.0.2:7946"
				}
				go func() { n, jerr = a.M.Join([]string{jaddr}); close(done) }()
				settle()
				time.Sleep(5 * time.Second)
				settle()
				<-done
				if c.wantOK {
					if n != 1 || jerr != nil || !listed(a, twinR) {
						rep.Violate("hostile-host:legit-reply-rejected", fmt.Sprintf("%s %v: n=%d err=%v", c.desc, cfg, n, jerr), nil)
					}
				} else {
					if n != 0 || jerr == nil {
						rep.Violate("hostile-host:join-counted", fmt.Sprintf("%s %v: Join reported n=%d err=%v", c.desc, cfg, n, jerr), nil)
					}
					if nodeDigest(a) != dig {
						rep.Violate("hostile-host:state-changed", fmt.Sprintf("%s %v: %s -> %s", c.desc, cfg, dig, nodeDigest(a)), nil)
					}
					if c.noDial && dials != 0 {
						rep.Violate("hostile-host:malformed-address-dialled", fmt.Sprintf("%s %v: %d dials", c.desc, cfg, dials), nil)
					}
					if c.veto && mg.Calls != 1 {
						rep.Violate("hostile-host:merge-delegate-not-consulted", fmt.Sprintf("%s %v: NotifyMerge called %d times", c.desc, cfg, mg.Calls), nil)
					}
				}
				rep.Outcome("hostile-host")
			})
			if res.Panic != nil || res.Leak {
				rep.Violate("panic-or-leak", fmt.Sprintf("hostile host %s: %v leak=%v", c.desc, res.Panic, res.Leak), nil)
			}
		}
	}
}
