package mc

// C10 — broadcast queue: no silent loss, exactly-once completion, bounded
// retransmits. Engine S: the real TransmitLimitedQueue steps in lock-step with
// a reference model (a plain slice) over (a) every operation sequence up to a
// depth, starting on a never-used queue, and (b) a state-merged BFS to a
// fixpoint over queues holding <= maxLive items.

import (
	"bytes"
	"fmt"
	"runtime"
	"sort"
	"strings"
	"testing"

	ml "github.com/hashicorp/memberlist"
)

// ---- broadcasts used as inputs

type tb struct {
	id    int // creation index in this execution
	kind  string
	name  string // for named
	group string // for plain: invalidation group
	msg   []byte
	fin   int
}

func (b *tb) Message() []byte { return b.msg }
func (b *tb) Finished()       { b.fin++ }

type namedB struct{ *tb }

func (b namedB) Name() string { return b.name }
func (b namedB) Invalidates(o ml.Broadcast) bool {
	nb, ok := o.(ml.NamedBroadcast)
	return ok && nb.Name() == b.name
}

type uniqueB struct{ *tb }

func (b uniqueB) UniqueBroadcast()              {}
func (b uniqueB) Invalidates(ml.Broadcast) bool { return false }

type plainB struct{ *tb }

func (b plainB) Invalidates(o ml.Broadcast) bool {
	if b.group == "g*" {
		// a "latest wins over everything I am shown" rule: the queue may only ever show it plain broadcasts
		return true
	}
	p, ok := o.(plainB)
	return ok && p.group == b.group
}

func (b *tb) wrap() ml.Broadcast {
	switch b.kind {
	case "named":
		return namedB{b}
	case "unique":
		return uniqueB{b}
	}
	return plainB{b}
}

// ---- operation alphabet

type qop struct {
	Op   string // Q G P R N S(et numnodes)
	Kind string // Q: named/unique/plain
	Name string // Q: name or group
	Size int    // Q: message length
	Fill byte   // Q: content byte (distinguishes equal-length messages)
	Ov   int    // G: overhead
	Lim  int    // G: limit
	N    int    // P: maxRetain ; S: numNodes
}

func (o qop) String() string {
	switch o.Op {
	case "Q":
		return fmt.Sprintf("Q(%s,%q,len=%d,%c)", o.Kind, o.Name, o.Size, o.Fill)
	case "G":
		return fmt.Sprintf("G(ov=%d,lim=%d)", o.Ov, o.Lim)
	case "P":
		return fmt.Sprintf("Prune(%d)", o.N)
	case "R":
		return "Reset"
	case "N":
		return "NumQueued"
	case "S":
		return fmt.Sprintf("NumNodes=%d", o.N)
	}
	return "?"
}

func c10Alphabet(full bool) []qop {
	a := []qop{
		{Op: "Q", Kind: "unique", Size: 2, Fill: 'x'},
		{Op: "Q", Kind: "unique", Size: 2, Fill: 'y'},
		{Op: "Q", Kind: "unique", Size: 5, Fill: 'z'},
		{Op: "Q", Kind: "named", Name: "a", Size: 2, Fill: 'a'},
		{Op: "Q", Kind: "named", Name: "a", Size: 3, Fill: 'A'},
		{Op: "Q", Kind: "named", Name: "b", Size: 2, Fill: 'b'},
		{Op: "Q", Kind: "plain", Name: "g1", Size: 2, Fill: 'p'},
		{Op: "Q", Kind: "plain", Name: "g2", Size: 2, Fill: 'q'},
		{Op: "Q", Kind: "plain", Name: "g*", Size: 2, Fill: 'w'}, // its Invalidates says yes to whatever it is shown
		{Op: "Q", Kind: "named", Name: "", Size: 2, Fill: 'e'},   // a subject whose name is the empty string, next to nameless broadcasts
		{Op: "G", Ov: 0, Lim: 2},
		{Op: "G", Ov: 0, Lim: 100},
		{Op: "G", Ov: 2, Lim: 4},
		{Op: "G", Ov: 2, Lim: 9},
		{Op: "P", N: 0},
		{Op: "P", N: 1},
		{Op: "R"},
		{Op: "S", N: 0},
		{Op: "S", N: 99},
	}
	if full {
		a = append(a,
			qop{Op: "Q", Kind: "named", Name: "", Size: 3, Fill: 'E'},
			qop{Op: "Q", Kind: "plain", Name: "g1", Size: 3, Fill: 'P'},
			qop{Op: "Q", Kind: "unique", Size: 1, Fill: 'w'},
			qop{Op: "G", Ov: 0, Lim: 0},
			qop{Op: "G", Ov: 0, Lim: 1},
			qop{Op: "G", Ov: 0, Lim: 4},
			qop{Op: "G", Ov: 3, Lim: 100},
			qop{Op: "P", N: 2},
			qop{Op: "N"},
			qop{Op: "S", N: 9},
			qop{Op: "S", N: 1},
		)
	}
	return a
}

// ---- reference model (written from the property statement)

type refItem struct {
	b         *tb
	transmits int
	seq       int // submission order: larger = newer
}

type refQueue struct {
	items []*refItem
	seq   int
	mult  int
	nodes int
}

func refLimit(mult, n int) int {
	// documented: RetransmitMult * ceil(log10(n+1))
	scale := 0
	for p := 1; p < n+1; p *= 10 {
		scale++
	}
	return mult * scale
}

// better reports whether x is handed out before y.
func refBetter(x, y *refItem) bool {
	if x.transmits != y.transmits {
		return x.transmits < y.transmits
	}
	if len(x.b.msg) != len(y.b.msg) {
		return len(x.b.msg) > len(y.b.msg)
	}
	return x.seq > y.seq
}

func (q *refQueue) remove(it *refItem) {
	for i, x := range q.items {
		if x == it {
			q.items = append(q.items[:i], q.items[i+1:]...)
			return
		}
	}
}

// each method returns the broadcasts that must complete in this step.
func (q *refQueue) queue(b *tb) (fin []*tb) {
	q.seq++
	switch b.kind {
	case "named":
		for _, it := range append([]*refItem(nil), q.items...) {
			if it.b.kind == "named" && it.b.name == b.name {
				fin = append(fin, it.b)
				q.remove(it)
			}
		}
	case "plain":
		for _, it := range append([]*refItem(nil), q.items...) {
			if it.b.kind == "plain" && (it.b.group == b.group || b.group == "g*") {
				fin = append(fin, it.b)
				q.remove(it)
			}
		}
	}
	q.items = append(q.items, &refItem{b: b, seq: q.seq})
	return
}

func (q *refQueue) get(ov, lim int) (msgs [][]byte, fin []*tb) {
	if len(q.items) == 0 {
		return nil, nil
	}
	limit := refLimit(q.mult, q.nodes)
	used := 0
	picked := map[*refItem]bool{}
	for {
		free := lim - used - ov
		if free <= 0 {
			break
		}
		var best *refItem
		for _, it := range q.items {
			if picked[it] || len(it.b.msg) > free {
				continue
			}
			if best == nil || refBetter(it, best) {
				best = it
			}
		}
		if best == nil {
			break
		}
		picked[best] = true
		used += ov + len(best.b.msg)
		msgs = append(msgs, best.b.msg)
		if best.transmits+1 >= limit {
			fin = append(fin, best.b)
			q.remove(best)
		} else {
			best.transmits++
		}
	}
	return
}

func (q *refQueue) prune(n int) (fin []*tb) {
	for len(q.items) > n {
		var worst *refItem
		for _, it := range q.items {
			if worst == nil || refBetter(worst, it) {
				worst = it
			}
		}
		fin = append(fin, worst.b)
		q.remove(worst)
	}
	return
}

func (q *refQueue) reset() (fin []*tb) {
	for _, it := range q.items {
		fin = append(fin, it.b)
	}
	q.items = nil
	return
}

func (q *refQueue) order() []*refItem {
	o := append([]*refItem(nil), q.items...)
	sort.SliceStable(o, func(i, j int) bool { return refBetter(o[i], o[j]) })
	return o
}

// ---- one lock-step execution

type c10Exec struct {
	q      *ml.TransmitLimitedQueue
	ref    *refQueue
	all    []*tb
	nodes  int
	expFin map[*tb]int
}

func newC10Exec(mult, nodes int) *c10Exec {
	e := &c10Exec{ref: &refQueue{mult: mult, nodes: nodes}, nodes: nodes, expFin: map[*tb]int{}}
	e.q = &ml.TransmitLimitedQueue{RetransmitMult: mult, NumNodes: func() int { return e.nodes }}
	return e
}

// step applies op to both and returns "" or a description of the first
// disagreement (sig, msg).
func (e *c10Exec) step(o qop) (sig, msg string) {
	var gotMsgs, wantMsgs [][]byte
	var fin []*tb
	var nq int
	nqChecked := false
	p := catch(func() {
		switch o.Op {
		case "Q":
			b := &tb{id: len(e.all), kind: o.Kind, msg: bytes.Repeat([]byte{o.Fill}, o.Size)}
			if o.Kind == "named" {
				b.name = o.Name
			} else if o.Kind == "plain" {
				b.group = o.Name
			}
			e.all = append(e.all, b)
			fin = e.ref.queue(b)
			e.q.QueueBroadcast(b.wrap())
		case "G":
			wantMsgs, fin = e.ref.get(o.Ov, o.Lim)
			gotMsgs = e.q.GetBroadcasts(o.Ov, o.Lim)
		case "P":
			fin = e.ref.prune(o.N)
			e.q.Prune(o.N)
		case "R":
			fin = e.ref.reset()
			e.q.Reset()
		case "N":
			nq = e.q.NumQueued()
			nqChecked = true
		case "S":
			e.nodes = o.N
			e.ref.nodes = o.N
		}
	})
	if p != nil {
		return "panic:" + o.Op, fmt.Sprintf("%v panicked: %v", o, p)
	}
	for _, b := range fin {
		e.expFin[b]++
	}
	if o.Op == "G" {
		if len(gotMsgs) != len(wantMsgs) {
			return "get-mismatch", fmt.Sprintf("%v returned %q, reference %q", o, gotMsgs, wantMsgs)
		}
		total := 0
		for i := range gotMsgs {
			total += len(gotMsgs[i]) + o.Ov
			if !bytes.Equal(gotMsgs[i], wantMsgs[i]) {
				return "get-mismatch", fmt.Sprintf("%v returned %q, reference %q", o, gotMsgs, wantMsgs)
			}
		}
		if total > o.Lim && len(gotMsgs) > 0 {
			return "get-over-limit", fmt.Sprintf("%v returned %d bytes incl. overhead", o, total)
		}
	}
	if nqChecked && nq != len(e.ref.items) {
		return "numqueued", fmt.Sprintf("NumQueued=%d reference %d", nq, len(e.ref.items))
	}
	// completion callbacks: exactly once, exactly when the reference says
	for _, b := range e.all {
		if b.fin != e.expFin[b] {
			kind := "finished-missing"
			if b.fin > e.expFin[b] {
				kind = "finished-extra"
			}
			return kind, fmt.Sprintf("after %v: broadcast #%d (%s %q len %d) Finished() called %d times, reference %d", o, b.id, b.kind, b.name+b.group, len(b.msg), b.fin, e.expFin[b])
		}
	}
	// structure: same items in the same preference order, <=1 per name
	var dump []ml.VQItem
	if p := catch(func() { dump, _ = e.q.VDump() }); p != nil {
		return "panic:dump", fmt.Sprint(p)
	}
	ord := e.ref.order()
	if len(dump) != len(ord) {
		return "queue-content", fmt.Sprintf("after %v: queue holds %d items, reference %d (%s)", o, len(dump), len(ord), dumpStr(dump))
	}
	names := map[string]bool{}
	for i, d := range dump {
		r := ord[i]
		if !bytes.Equal(d.Msg, r.b.msg) || d.Transmits != r.transmits {
			return "queue-content", fmt.Sprintf("after %v: position %d holds %q/t=%d, reference %q/t=%d", o, i, d.Msg, d.Transmits, r.b.msg, r.transmits)
		}
		if r.b.kind == "named" {
			if names[r.b.name] {
				return "two-per-name", fmt.Sprintf("after %v: two queued broadcasts named %q", o, r.b.name)
			}
			names[r.b.name] = true
		}
	}
	if n := e.q.NumQueued(); n != len(ord) {
		return "numqueued", fmt.Sprintf("NumQueued=%d reference %d", n, len(ord))
	}
	for name, present := range e.q.VNameIndex() {
		if !present {
			return "stale-name-index", fmt.Sprintf("after %v: name index holds %q but the item is not queued", o, name)
		}
	}
	return "", ""
}

func dumpStr(d []ml.VQItem) string {
	var s []string
	for _, x := range d {
		s = append(s, fmt.Sprintf("%q/t%d/id%d", x.Msg, x.Transmits, x.ID))
	}
	return strings.Join(s, " ")
}

// canon: canonical key of the implementation's state for the merged BFS.
func (e *c10Exec) canon() string {
	dump, idGen := e.q.VDump()
	var sb strings.Builder
	fmt.Fprintf(&sb, "n%d|", e.nodes)
	var maxID int64
	for _, d := range dump {
		if d.ID > maxID {
			maxID = d.ID
		}
	}
	// Only the order of ids matters to the queue, and whether the generator is
	// at or above every live id (then every future id is newer than all of
	// them); a generator that fell behind is kept exactly (clipped) so such
	// states are never merged with healthy ones.
	gen := idGen - maxID
	if gen > 0 {
		gen = 0
	}
	if gen < -4 {
		gen = -4
	}
	if len(dump) == 0 {
		gen = 0
	}
	fmt.Fprintf(&sb, "g%d|", gen)
	for _, d := range dump {
		kind := "?"
		switch d.B.(type) {
		case namedB:
			kind = "N" + d.Name
			if d.Name == "" {
				kind = "N<empty>"
			}
		case uniqueB:
			kind = "U"
		case plainB:
			kind = "P" + d.B.(plainB).group
		}
		fmt.Fprintf(&sb, "%s:%s:t%d,", kind, d.Msg, d.Transmits)
	}
	// relative id order among items matters for ties
	ids := make([]int64, len(dump))
	for i, d := range dump {
		ids[i] = d.ID
	}
	rank := make([]int, len(ids))
	for i := range ids {
		for j := range ids {
			if ids[j] < ids[i] {
				rank[i]++
			}
		}
	}
	fmt.Fprintf(&sb, "|r%v", rank)
	return sb.String()
}

func opsStr(ops []qop) []string {
	s := make([]string, len(ops))
	for i, o := range ops {
		s[i] = o.String()
	}
	return s
}

type c10Replay struct {
	Mult  int   `json:"mult"`
	Nodes int   `json:"nodes"`
	Ops   []qop `json:"ops"`
}

// runSeq replays ops on a fresh queue; returns index of failing op or -1.
func c10RunSeq(mult, nodes int, ops []qop) (*c10Exec, int, string, string) {
	e := newC10Exec(mult, nodes)
	for i, o := range ops {
		if sig, msg := e.step(o); sig != "" {
			return e, i, sig, msg
		}
	}
	return e, -1, "", ""
}

func TestC10(t *testing.T) {
	rep := newReport()
	defer rep.Write(t)
	var rp c10Replay
	if loadReplay(&rp) {
		_, i, sig, msg := c10RunSeq(rp.Mult, rp.Nodes, rp.Ops)
		if i >= 0 {
			t.Logf("replay: op %d %v: %s: %s", i, rp.Ops[i], sig, msg)
			rep.Violate(sig, msg, rp)
		} else {
			t.Logf("replay: sequence passes")
		}
		rep.Transitions = len(rp.Ops)
		rep.States = 1
		rep.Samples = append(rep.Samples, opsStr(rp.Ops))
		return
	}

	depth := 4
	maxLive := 3
	mults := []int{0, 1, 2, 3}
	full := false
	if thorough() {
		depth, maxLive, full = 5, 4, true
	}
	alpha := c10Alphabet(full)
	startNodes := []int{9}
	rep.Bounds = map[string]any{"depth": depth, "alphabet": len(alpha), "retransmit_mults": mults, "bfs_max_live_items": maxLive, "start_num_nodes": startNodes}
	rep.Rule = "every operation sequence over the alphabet up to the depth on a never-used queue, plus a state-merged BFS to fixpoint; a case is one (sequence prefix, next op) transition checked against the reference model; distinct = distinct canonical queue states"
	rep.Assumptions = []string{"message sizes from {1,2,3,5}; names from {a,b,\"\"}; two plain invalidation groups and one whose Invalidates accepts everything it is shown", "the queue is driven from one goroutine (all operations serialise on its mutex)"}

	// ---- (a) all sequences to the depth, sharded on the first two ops
	caseIdx := 0
	seqs := 0
	var dfs func(mult int, prefix []qop)
	dfs = func(mult int, prefix []qop) {
		for _, o := range alpha {
			ops := append(append([]qop(nil), prefix...), o)
			if len(ops) == 2 {
				caseIdx++
				if !mine(caseIdx) {
					continue
				}
			}
			if len(ops) >= 2 || depth < 2 {
				if seqs&255 == 0 {
					journal("C10 seq mult=%d %v", mult, opsStr(ops))
				}
				_, i, sig, msg := c10RunSeq(mult, startNodes[0], ops)
				rep.Transitions++
				seqs++
				if i >= 0 {
					rep.Outcome("violation:" + sig)
					rep.Violate(sig, fmt.Sprintf("mult=%d ops=%v: %s", mult, opsStr(ops), msg), c10Replay{mult, startNodes[0], ops})
					continue // extensions of a failing sequence are not explored
				}
				if seqs%50000 == 1 {
					rep.Sample(opsStr(ops))
				}
			}
			if len(ops) < depth {
				dfs(mult, ops)
			}
		}
	}
	for _, m := range mults {
		dfs(m, nil)
	}
	rep.Traces = seqs
	rep.Extra["sequences"] = seqs

	// ---- (b) merged BFS to a fixpoint, configurations sharded
	cfgIdx := 0
	states := 0
	for _, m := range mults {
		cfgIdx++
		if !mine(cfgIdx) {
			continue
		}
		// a state is remembered by its key and a parent pointer (the path is rebuilt on demand:
		// storing a path copy per state exhausted memory at thorough bounds)
		type bnode struct {
			parent *bnode
			op     qop
			depth  int
		}
		pathOf := func(n *bnode) []qop {
			if n == nil {
				return nil
			}
			out := make([]qop, n.depth)
			for x := n; x != nil; x = x.parent {
				out[x.depth-1] = x.op
			}
			return out
		}
		seen := map[string]*bnode{}
		e0 := newC10Exec(m, startNodes[0])
		seen[e0.canon()] = nil
		frontier := []*bnode{nil}
		stop := false
		var ms runtime.MemStats
		for len(frontier) > 0 && !stop {
			var next []*bnode
			for _, pn := range frontier {
				path := pathOf(pn)
				for _, o := range alpha {
					ops := append(append(make([]qop, 0, len(path)+1), path...), o)
					if rep.Transitions&1023 == 0 {
						journal("C10 bfs mult=%d %v", m, opsStr(ops))
						if rep.OverBudget() {
							stop = true
						}
						if rep.Transitions&65535 == 0 {
							runtime.ReadMemStats(&ms)
							if ms.HeapAlloc > 6<<30 {
								stop = true
								rep.Incomplete(fmt.Sprintf("BFS mult=%d stopped at %d states: memory cap of 6 GiB per worker reached", m, len(seen)))
							}
						}
					}
					if stop {
						break
					}
					e, i, sig, msg := c10RunSeq(m, startNodes[0], ops)
					rep.Transitions++
					if i >= 0 {
						rep.Outcome("violation:" + sig)
						rep.Violate(sig, fmt.Sprintf("mult=%d ops=%v: %s", m, opsStr(ops), msg), c10Replay{m, startNodes[0], ops})
						continue
					}
					if len(e.ref.items) > maxLive {
						continue
					}
					k := e.canon()
					if _, ok := seen[k]; !ok {
						d := 1
						if pn != nil {
							d = pn.depth + 1
						}
						nn := &bnode{parent: pn, op: o, depth: d}
						seen[k] = nn
						next = append(next, nn)
					}
				}
				if stop {
					break
				}
			}
			frontier = next
		}
		states += len(seen)
		rep.Extra[fmt.Sprintf("bfs_states_mult%d", m)] = len(seen)
		for k, n := range seen {
			if n != nil && n.depth >= 4 {
				rep.Sample(map[string]any{"state": k, "path": opsStr(pathOf(n))})
				break
			}
		}
	}
	rep.States = states
	rep.Distinct = states
	rep.Evaluations = rep.Transitions
	rep.Outcome("conforming-transitions")
	rep.Outcomes["conforming-transitions"] = rep.Transitions - rep.NumViolations()
}
