package mc

// C11 — piggyback packing is lossless and within the packet budget.
// Engine W over a configuration lattice: real sender with a stocked broadcast
// queue and delegate, every send path that packs queued broadcasts, real
// receiver; oracle = size of every buffer reaching the transport, and
// sender-side truth (what queue and delegate handed out) vs. receiver-side
// observation (members + delegate messages).

import (
	"bytes"
	"fmt"
	"sort"
	"strings"
	"testing"
	"time"

	ml "github.com/hashicorp/memberlist"
)

type c11Content struct {
	M     int    // membership broadcasts queued
	MMeta string // "min" "mid" "max" "mix"
	U     int    // user broadcasts available
	USize string // "1" "2" "40" "fill" "fill-1" "mix"
}

func (c c11Content) String() string {
	return fmt.Sprintf("m=%d/%s u=%d/%s", c.M, c.MMeta, c.U, c.USize)
}

type c11Case struct {
	L       lat        `json:"cell"`
	Path    string     `json:"path"` // ping ack nack indirect gossip
	Content c11Content `json:"content"`
}

func c11Cells(full bool) []lat {
	var out []lat
	bufs := []int{512, 1400}
	if full {
		bufs = []int{128, 512, 1400, 9000, 65535}
	}
	type ev struct {
		enc      string
		noVerOut bool
	}
	for _, ub := range bufs {
		for _, lb := range []string{"", "L", strings.Repeat("y", 255)} {
			for _, e := range []ev{{"off", false}, {"v1", false}, {"v1", true}, {"v0", false}} {
				for _, comp := range []bool{false, true} {
					for _, pm := range []uint8{4, 5} {
						kl := 16
						out = append(out, lat{Enc: e.enc, KeyLen: kl, NoVerOut: e.noVerOut, NoVerIn: e.noVerOut, Comp: comp, Label: lb, PeerPMax: pm, IPNames: true, UDPBuf: ub})
					}
				}
			}
		}
	}
	// the documented roll-out step: keys installed, outgoing traffic sealed, incoming plaintext still accepted
	for _, enc := range []string{"v1", "v0"} {
		for _, lb := range []string{"", "L"} {
			for _, pm := range []uint8{4, 5} {
				out = append(out, lat{Enc: enc, KeyLen: 16, NoVerIn: true, Label: lb, PeerPMax: pm, IPNames: true, UDPBuf: 512})
			}
		}
	}
	// the first key installed after the node was created (nothing about the budget may be cached at creation)
	for _, enc := range []string{"v1", "v0"} {
		for _, lb := range []string{"", "L"} {
			for _, pm := range []uint8{4, 5} {
				out = append(out, lat{Enc: enc, KeyLen: 16, Label: lb, PeerPMax: pm, IPNames: true, UDPBuf: 512, LateKey: true})
			}
		}
	}
	// padding alignment: encryption version 0 pads to the AES block size, so every residue of
	// the budget modulo 16 is a different case: 16 consecutive buffer sizes
	for ub := 497; ub <= 512; ub++ {
		for _, lb := range []string{"", "L"} {
			for _, pm := range []uint8{4, 5} {
				out = append(out, lat{Enc: "v0", KeyLen: 16, Comp: false, Label: lb, PeerPMax: pm, IPNames: true, UDPBuf: ub})
			}
		}
	}
	return out
}

func c11Contents(full bool) []c11Content {
	out := []c11Content{
		{0, "min", 1, "1"}, {1, "min", 0, "1"}, {2, "mid", 2, "40"}, {3, "max", 1, "fill"}, {3, "mix", 1, "fill-1"},
		{22, "min", 0, "1"}, {0, "min", 300, "1"}, {0, "min", 700, "2"}, {1, "min", 257, "1"}, {300, "mix", 300, "mix"},
		{2, "max", 255, "1"}, {0, "min", 254, "1"},
		// a lone membership broadcast (sent "as is", not re-packed), retransmitted: whether the encoder's
		// buffer has spare room behind the message depends on its size
		{1, "mid", 0, "1"}, {1, "max", 0, "1"}, {1, "n7", 0, "1"}, {1, "n20", 0, "1"}, {1, "n40", 0, "1"}, {1, "n200", 0, "1"},
	}
	if full {
		for k := 1; k <= 512; k++ {
			out = append(out, c11Content{1, fmt.Sprintf("n%d", k), 0, "1"})
		}
	}
	if full {
		// the full product of the design's count and size menus
		for _, m := range []int{0, 1, 2, 3, 21, 22, 254, 255, 256, 300} {
			for _, u := range []int{0, 1, 2, 253, 254, 255, 256, 257, 300, 700} {
				for _, mm := range []string{"min", "mid", "max", "mix"} {
					for _, us := range []string{"1", "2", "40", "fill", "fill-1", "mix"} {
						if m == 0 && mm != "min" || u == 0 && us != "1" {
							continue
						}
						out = append(out, c11Content{m, mm, u, us})
					}
				}
			}
		}
		out = append(out, c11Content{21, "min", 0, "1"}, c11Content{254, "min", 0, "1"}, c11Content{255, "min", 3, "2"}, c11Content{256, "mid", 0, "1"},
			c11Content{0, "min", 253, "1"}, c11Content{0, "min", 255, "1"}, c11Content{0, "min", 256, "2"}, c11Content{1, "max", 700, "mix"})
	}
	return out
}

type fillDelegate struct {
	*delegateRec
	mode  string
	n     int
	given [][]byte
}

func (f *fillDelegate) GetBroadcasts(overhead, limit int) [][]byte {
	var out [][]byte
	used := 0
	seq := len(f.given)
	for f.n > 0 {
		var sz int
		switch f.mode {
		case "1":
			sz = 1
		case "2":
			sz = 2
		case "40":
			sz = 40
		case "fill":
			sz = limit - used - overhead
		case "fill-1":
			sz = limit - used - overhead - 1
		case "mix":
			sz = []int{1, 40, 2, 200}[seq%4]
		}
		if sz < 1 || used+overhead+sz > limit {
			break
		}
		b := make([]byte, sz)
		for i := range b {
			b[i] = byte(seq*7 + i)
		}
		if sz >= 2 {
			b[0], b[1] = byte(seq>>8), byte(seq)
		}
		out = append(out, b)
		used += overhead + sz
		f.n--
		seq++
	}
	f.given = append(f.given, out...)
	return out
}

func runC11Cell(t *testing.T, l lat, contents []c11Content, rep *Report) (cases int) {
	var keys [][]byte
	if l.Enc != "off" {
		keys = [][]byte{latKey(l.KeyLen)}
	}
	paths := []string{"ping", "ack", "nack", "indirect", "gossip", "gossip-multi"}
	for _, path := range paths {
		for _, ct := range contents {
			if rep.OverBudget() {
				return
			}
			cs := c11Case{l, path, ct}
			journal("C11 %v %s %v", l, path, ct)
			cases++
			res := inBubble(t, func(b *bubble) {
				installDetRand()
				fd := &fillDelegate{delegateRec: &delegateRec{}}
				p := newPair(b, l, func(name string, c *ml.Config) {
					if name == pairNamesS(l) {
						c.Delegate = fd
					}
					c.RetransmitMult = 3
				})
				s, r := p.s, p.r
				if path == "gossip-multi" {
					// three more members of mixed protocol generations: a gossip round has several recipients,
					// some with and some without the checksum header in front of their copy
					for i, pm := range []uint8{4, 5, 3} {
						s.M.VAliveNode(&ml.VAlive{Incarnation: 1, Node: fmt.Sprintf("10.0.0.%d", 230+i), Addr: ip4(byte(230 + i)), Port: 7946, Vsn: []uint8{1, pm, 2, 0, 0, 0}}, nil, false)
					}
					advance(time.Microsecond)
					p.drainQueues()
				}
				// stock the queue
				type mb struct {
					name string
					meta []byte
				}
				var queued []mb
				origMsgs := map[string]bool{}
				for i := 0; i < ct.M; i++ {
					sz := map[string]int{"min": 0, "mid": 100, "max": 512}[ct.MMeta]
					if strings.HasPrefix(ct.MMeta, "n") {
						fmt.Sscanf(ct.MMeta, "n%d", &sz) // explicit metadata size
					}
					if ct.MMeta == "mix" {
						sz = []int{0, 512, 100, 7}[i%4]
					}
					nm := fmt.Sprintf("n%04d", i)
					var meta []byte
					if sz > 0 {
						meta = payloadOf(sz, false)
						meta[0] = byte(i)
					}
					a := &ml.VAlive{Incarnation: 5, Node: nm, Addr: ip4(210), Port: 7946, Meta: meta, Vsn: defaultVsn}
					buf, _ := ml.VEncode(ml.VAliveMsg, a, false)
					origMsgs[string(buf)] = true
					// queued exactly as the library queues its own broadcasts: the encoder's buffer, spare capacity included
					s.M.VQueueBroadcast(nm, buf, nil)
					queued = append(queued, mb{nm, meta})
				}
				fd.mode, fd.n = ct.USize, ct.U
				before, _ := s.M.VBroadcasts().VDump()
				p.Tap = nil
				rMsgs := r.D.NumMsgs()
				rAddr := string(r.Addr)
				switch path {
				case "ping":
					must(s.M.VEncodeAndSendMsg(rAddr, r.Name, ml.VPingMsg, &ml.VPing{SeqNo: 77, Node: "nobody"}))
				case "ack":
					must(s.M.VEncodeAndSendMsg(rAddr, r.Name, ml.VAckRespMsg, &ml.VAckResp{SeqNo: 424242, Payload: []byte("pl")}))
				case "nack":
					must(s.M.VEncodeAndSendMsg(rAddr, r.Name, ml.VNackRespMsg, &ml.VNackResp{SeqNo: 424242}))
				case "indirect":
					must(s.M.VEncodeAndSendMsg(rAddr, r.Name, ml.VIndirectPingMsg, &ml.VIndirectPingReq{SeqNo: 9, Target: ip4(250), Port: 7946, Node: "nobody", Nack: false, SourceAddr: ip4(1), SourcePort: 7946, SourceNode: s.Name}))
				case "gossip", "gossip-multi":
					orig := s.T.OnSend
					s.T.OnSend = func(pk sentPkt) {
						p.Tap = append(p.Tap, tapRec{From: s.Name, To: pk.To, Buf: pk.Buf})
						r.T.Deliver(pk.Buf, s.Addr)
					}
					// three rounds: a broadcast is retransmitted, and every transmission must still be the message
					for round := 0; round < 3; round++ {
						s.M.VGossip()
					}
					s.T.OnSend = orig
				}
				settle()
				time.Sleep(time.Millisecond)
				settle()
				after, _ := s.M.VBroadcasts().VDump()
				// sender-side truth: membership broadcasts handed out at least once
				tr := map[string]int{}
				for _, it := range before {
					tr[it.Name] = it.Transmits
				}
				handed := map[string]bool{}
				still := map[string]int{}
				for _, it := range after {
					still[it.Name] = it.Transmits
				}
				for name, t0 := range tr {
					if t1, ok := still[name]; !ok || t1 > t0 {
						handed[name] = true
					}
				}
				packed := len(handed) + len(fd.given)
				for _, g := range fd.given {
					origMsgs[string(append([]byte{ml.VUserMsg}, g...))] = true
				}
				// budget: every buffer that carries queued broadcasts
				for _, tp := range p.Tap {
					if tp.From != s.Name {
						continue
					}
					if packed > 0 && len(tp.Buf) > s.Cfg.UDPBufferSize {
						rep.Violate(fmt.Sprintf("over-budget:%s:+%d", pathClass(path), len(tp.Buf)-s.Cfg.UDPBufferSize),
							fmt.Sprintf("%v path=%s %v: %d-byte packet for a %d-byte limit (%d broadcasts packed)", l, path, ct, len(tp.Buf), s.Cfg.UDPBufferSize, packed), cs)
						rep.Outcome("over-budget")
					}
					pl, err := peelPacket(tp.Buf, keysIf(keys, !l.NoVerOut))
					if err != nil {
						rep.Violate("unpeelable-packet", fmt.Sprintf("%v path=%s %v: %v", l, path, ct, err), cs)
						continue
					}
					// every part the receiver will unpack is, byte for byte, a message that was queued / handed out
					// (or the message the broadcasts ride on)
					leaves, err := explode(pl.Plain)
					if err != nil {
						rep.Violate("unpackable-packet", fmt.Sprintf("%v path=%s %v: %v", l, path, ct, err), cs)
						continue
					}
					for li, lf := range leaves {
						if li == 0 && !strings.HasPrefix(path, "gossip") {
							continue // the primary message
						}
						if !origMsgs[string(lf)] {
							rep.Violate("packed-message-corrupted:"+pathClass(path), fmt.Sprintf("%v path=%s %v: part %d of a packet (%d bytes, type %d) is not one of the messages that were queued", l, path, ct, li, len(lf), lf[0]), cs)
							break
						}
					}
				}
				// receiver side
				snap := r.M.VSnapshot()
				for _, q := range queued {
					rec := findRec(snap, q.name)
					if handed[q.name] {
						if rec == nil || rec.State != ml.StateAlive || !bytes.Equal(rec.Meta, q.meta) {
							rep.Violate("membership-broadcast-lost:"+pathClass(path), fmt.Sprintf("%v path=%s %v: broadcast about %s was handed out (%d membership + %d user packed) but the receiver holds %s", l, path, ct, q.name, len(handed), len(fd.given), recStr(rec)), cs)
							rep.Outcome("lost-membership")
							break
						}
					} else if rec != nil {
						rep.Violate("membership-broadcast-invented", fmt.Sprintf("%v: %s", l, q.name), cs)
					}
				}
				got := r.D.Msgs[rMsgs:]
				if !sameMultiset(got, fd.given) {
					rep.Violate("user-broadcast-lost:"+pathClass(path), fmt.Sprintf("%v path=%s %v: delegate handed out %d user messages, receiver's delegate got %d (%d membership packed)", l, path, ct, len(fd.given), len(got), len(handed)), cs)
					rep.Outcome("lost-user")
				}
				if packed > 0 {
					rep.Distinct++
					rep.Outcome(fmt.Sprintf("packed:%s", bucket(packed)))
				} else {
					rep.Outcome("nothing-packed")
				}
			})
			if res.Panic != nil {
				rep.Violate("panic", fmt.Sprintf("%v %s %v: %v", l, path, ct, res.Panic), cs)
			}
		}
	}
	return
}

func pathClass(p string) string {
	if strings.HasPrefix(p, "gossip") {
		return "gossip"
	}
	return "piggyback"
}

func keysIf(k [][]byte, on bool) [][]byte {
	if on {
		return k
	}
	return nil
}

func bucket(n int) string {
	switch {
	case n <= 1:
		return "1"
	case n <= 3:
		return "2-3"
	case n <= 30:
		return "4-30"
	case n <= 254:
		return "31-254"
	case n <= 255:
		return "255"
	}
	return ">255"
}

func sameMultiset(a, b [][]byte) bool {
	if len(a) != len(b) {
		return false
	}
	x := make([]string, len(a))
	y := make([]string, len(b))
	for i := range a {
		x[i], y[i] = string(a[i]), string(b[i])
	}
	sort.Strings(x)
	sort.Strings(y)
	for i := range x {
		if x[i] != y[i] {
			return false
		}
	}
	return true
}

func TestC11(t *testing.T) {
	rep := newReport()
	defer rep.Write(t)
	var rp c11Case
	if loadReplay(&rp) {
		n := runC11CellOne(t, rp, rep)
		rep.Evaluations = n
		rep.Samples = append(rep.Samples, rp)
		if rep.Distinct < 2 {
			rep.Distinct = 2
		}
		return
	}
	cells := c11Cells(thorough())
	contents := c11Contents(thorough())
	rep.Bounds = map[string]any{"cells": len(cells), "contents": len(contents), "paths": []string{"piggyback on ping", "on ack", "on nack", "on indirect ping", "gossip round", "gossip round with four recipients of mixed protocol generations"}}
	rep.Rule = "full product of UDPBufferSize x label{none,1 B,255 B} x encryption{off,v1,v1 without outgoing verification,v0} x compression x peer checksum support x send path x queue content (membership broadcasts 0..300 with min/mid/max metadata; user broadcasts 0..700 of size 1,2,40,exactly-the-offered-limit,limit-1,mixed); non-trivial = at least one queued broadcast was packed"
	rep.Assumptions = []string{"the receiver is configured compatibly; what the queue/delegate handed out is read from the hook's queue dump and the harness delegate"}
	for i, l := range cells {
		if !mine(i) {
			continue
		}
		rep.Evaluations += runC11Cell(t, l, contents, rep)
		if i%25 == 0 {
			rep.Sample(map[string]any{"cell": l.String(), "contents": fmt.Sprint(contents[:3])})
		}
	}
}

func runC11CellOne(t *testing.T, c c11Case, rep *Report) int {
	// replay: run the whole cell restricted to the one content (all paths)
	return runC11Cell(t, c.L, []c11Content{c.Content}, rep)
}
