package mc

// C12 — the wire pipeline round-trips every message under every
// configuration. Engine W: configuration lattice x message family x field
// menu; a real sender emits through the real send functions, a real receiver
// ingests; differential oracle (sender struct/payload vs. what the receiver
// acted on) plus independent layer peeling with byte equality.

import (
	"bytes"
	"fmt"
	"math"
	"strings"
	"testing"
	"time"

	ml "github.com/hashicorp/memberlist"
)

func c12Cells(full bool) []lat {
	var out []lat
	type ek struct {
		e string
		k int
	}
	encs := []ek{{"off", 0}, {"v1", 16}, {"v1", 24}, {"v1", 32}, {"v0", 16}, {"v0", 24}, {"v0", 32}}
	labels := []string{"", "L", strings.Repeat("x", 255)}
	for _, e := range encs {
		for _, comp := range []bool{false, true} {
			for _, lb := range labels {
				for _, pm := range []uint8{4, 5} {
					for _, nt := range []bool{false, true} {
						out = append(out, lat{Enc: e.e, KeyLen: e.k, Comp: comp, Label: lb, PeerPMax: pm, NewTime: nt, IPNames: true})
					}
				}
			}
		}
	}
	if full {
		for _, e := range encs {
			out = append(out, lat{Enc: e.e, KeyLen: e.k, Comp: true, Label: "L", PeerPMax: 5, IPNames: false})
		}
	}
	// an application transport that is not node-aware (the library's shim drops node names, the label
	// wrapper's plain WriteTo/DialTimeout carry the traffic)
	for _, e := range []ek{{"off", 0}, {"v1", 16}, {"v0", 32}} {
		for _, lb := range []string{"", "L"} {
			for _, pm := range []uint8{4, 5} {
				out = append(out, lat{Enc: e.e, KeyLen: e.k, Comp: true, Label: lb, PeerPMax: pm, IPNames: pm == 5, Plain: true})
			}
		}
	}
	// a deployment that demands node names on every send: the library's own traffic must always carry them
	for _, e := range []ek{{"off", 0}, {"v1", 16}} {
		for _, lb := range []string{"", "L"} {
			for _, ipn := range []bool{true, false} {
				out = append(out, lat{Enc: e.e, KeyLen: e.k, Comp: !ipn, Label: lb, PeerPMax: 5, IPNames: ipn, ReqNames: true})
			}
		}
	}
	// the documented roll-out stage: one side already holds a key but neither seals nor insists on sealed
	// traffic, the other side still speaks plaintext (with and without the checksum header in front)
	for _, ipn := range []bool{true, false} {
		for _, pm := range []uint8{4, 5} {
			for _, lb := range []string{"", "L"} {
				out = append(out, lat{Enc: "off", Label: lb, PeerPMax: pm, IPNames: ipn, Rollout: true})
			}
		}
	}
	return out
}

type pingRec struct{ payloads [][]byte }

func (p *pingRec) AckPayload() []byte { return nil }
func (p *pingRec) NotifyPingComplete(other *ml.Node, rtt time.Duration, payload []byte) {
	p.payloads = append(p.payloads, append([]byte(nil), payload...))
}

type ackPayloader struct{ pl []byte }

func (a *ackPayloader) AckPayload() []byte                                 { return a.pl }
func (a *ackPayloader) NotifyPingComplete(*ml.Node, time.Duration, []byte) {}

func payloadOf(n int, compressible bool) []byte {
	b := make([]byte, n)
	for i := range b {
		if compressible {
			b[i] = byte('a' + i%3)
		} else {
			b[i] = byte((i*131 + 17*(i>>3) + 89) ^ (i >> 1))
		}
	}
	return b
}

type c12Fail struct {
	Cell   string `json:"cell"`
	Family string `json:"family"`
	Detail string `json:"detail"`
}

// runC12Cell runs every family x menu in one cell; returns failures.
func runC12Cell(t *testing.T, l lat, rep *Report, boundaryOnly bool) (fails []c12Fail, cases int) {
	fail := func(fam, f string, a ...any) {
		if len(fails) < 6 {
			fails = append(fails, c12Fail{l.String(), fam, fmt.Sprintf(f, a...)})
		}
	}
	var keys [][]byte
	if l.Enc != "off" {
		keys = [][]byte{latKey(l.KeyLen)}
	}
	simFrag = l.Frag
	defer func() { simFrag = 0 }()
	res := inBubble(t, func(b *bubble) {
		installDetRand()
		sPing := &pingRec{}
		rAck := &ackPayloader{}
		p := newPair(b, l, func(name string, c *ml.Config) {
			c.ProbeTimeout = 300 * time.Millisecond
			c.IndirectChecks = 1
			c.DisableTcpPings = true
			c.DelegateProtocolMin, c.DelegateProtocolMax, c.DelegateProtocolVersion = 2, 5, 4 // all distinct
			if l.Rollout && name != pairNamesS(l) {
				kr, _ := ml.NewKeyring(nil, latKey(16))
				c.Keyring = kr
				c.GossipVerifyIncoming = false
				c.GossipVerifyOutgoing = false
			}
			if name == pairNamesS(l) {
				c.Ping = sPing
			} else {
				c.Ping = rAck
			}
		})
		s, r := p.s, p.r
		rAddr := string(r.Addr)
		ctr := 0
		fresh := func(long bool) string {
			ctr++
			if long {
				return fmt.Sprintf("%05d", ctr) + strings.Repeat("n", 250)
			}
			return fmt.Sprintf("m%d", ctr)
		}
		// checkPeel verifies the last packet s->r peels to want.
		checkPeel := func(fam string, want []byte, explicitNode bool) {
			var last *tapRec
			for i := range p.Tap {
				if p.Tap[i].From == s.Name && p.Tap[i].To == rAddr {
					last = &p.Tap[i]
				}
			}
			if last == nil {
				fail(fam, "no packet reached the transport")
				return
			}
			pl, err := peelPacket(last.Buf, keys)
			if err != nil {
				fail(fam, "emitted packet does not peel: %v", err)
				return
			}
			if pl.Label != l.Label {
				fail(fam, "label %q on the wire, configured %q", pl.Label, l.Label)
			}
			if l.Enc != "off" && pl.EncVsn != l.encVsn() {
				fail(fam, "encryption version %d, expected %d", pl.EncVsn, l.encVsn())
			}
			// the sender adds a checksum when it knows the recipient speaks protocol >= 5: it knows the
			// recipient when the caller passed the node or when the node name is its bare address
			if wantCRC := p.peerPMax() >= 5 && (explicitNode || l.IPNames); pl.HadCRC != wantCRC {
				fail(fam, "checksum header present=%v, expected %v (peer max protocol %d)", pl.HadCRC, wantCRC, p.peerPMax())
			}
			if pl.Compress && !l.Comp {
				fail(fam, "compressed although compression is off")
			}
			if want != nil && !bytes.Equal(pl.Plain, want) {
				fail(fam, "peeled plaintext differs from the message given to the sender (%d vs %d bytes)", len(pl.Plain), len(want))
			}
		}
		// ---- 1-3: alive / suspect / dead about fresh names
		type am struct {
			long bool
			meta int
			inc  uint32
			port uint16
		}
		menu := []am{{false, 0, 1, 7946}, {true, 512, math.MaxUint32, 65535}, {false, 1, 2, 1}, {true, 0, 1, 0}}
		if !boundaryOnly {
			menu = append(menu, am{false, 512, 7, 0}, am{true, 1, math.MaxUint32 - 1, 1}, am{false, 17, 1, 65535})
		}
		for _, m := range menu {
			name := fresh(m.long)
			var meta []byte
			if m.meta > 0 {
				meta = payloadOf(m.meta, m.meta > 100)
			}
			a := &ml.VAlive{Incarnation: m.inc, Node: name, Addr: ip4(200), Port: m.port, Meta: meta, Vsn: []uint8{1, 5, 3, 1, 6, 3}}
			p.Tap = nil
			must(s.M.VEncodeAndSendMsg(rAddr, r.Name, ml.VAliveMsg, a))
			settle()
			cases++
			want, _ := ml.VEncode(ml.VAliveMsg, a, l.NewTime)
			checkPeel("alive", want, false)
			rec := findRec(r.M.VSnapshot(), name)
			wantPort := m.port
			if wantPort == 0 || l.Enc == "v0" {
				wantPort = 7946 // documented: absent port (and protocol 1) means the configured port
			}
			if rec == nil || rec.State != ml.StateAlive || rec.Incarnation != m.inc || !bytes.Equal(rec.Addr, ip4(200)) || rec.Port != wantPort || !bytes.Equal(rec.Meta, meta) || rec.Vsn != [6]uint8{1, 5, 3, 1, 6, 3} {
				fail("alive", "sent %s i%d port %d meta %dB; receiver holds %s", name[:5], m.inc, m.port, len(meta), recStr(rec))
				continue
			}
			// suspect then dead for the same subject
			advance(time.Microsecond)
			su := &ml.VSuspect{Incarnation: m.inc, Node: name, From: fresh(m.long)}
			p.Tap = nil
			must(s.M.VEncodeAndSendMsg(rAddr, r.Name, ml.VSuspectMsg, su))
			settle()
			cases++
			want, _ = ml.VEncode(ml.VSuspectMsg, su, l.NewTime)
			checkPeel("suspect", want, false)
			rec = findRec(r.M.VSnapshot(), name)
			if rec == nil || rec.State != ml.StateSuspect || len(rec.Confirmers) != 1 || rec.Confirmers[0] != su.From {
				fail("suspect", "receiver holds %s, expected suspect accused by %q", recStr(rec), su.From[:5])
			}
			advance(time.Microsecond)
			d := &ml.VDead{Incarnation: m.inc, Node: name, From: su.From}
			p.Tap = nil
			must(s.M.VEncodeAndSendMsg(rAddr, r.Name, ml.VDeadMsg, d))
			settle()
			cases++
			want, _ = ml.VEncode(ml.VDeadMsg, d, l.NewTime)
			checkPeel("dead", want, false)
			rec = findRec(r.M.VSnapshot(), name)
			if rec == nil || rec.State != ml.StateDead || rec.Incarnation != m.inc {
				fail("dead", "receiver holds %s", recStr(rec))
			}
			r.M.VBroadcasts().Reset()
		}
		// ---- 4: ping + ack (with payload) through the real probe
		for _, n := range []int{0, 1, 48} {
			rAck.pl = nil
			if n > 0 {
				rAck.pl = payloadOf(n, false)
			}
			before := len(sPing.payloads)
			done := make(chan struct{})
			go func() { s.M.VProbeNodeByName(r.Name); close(done) }()
			settle()
			time.Sleep(2 * time.Second)
			settle()
			<-done
			cases++
			if len(sPing.payloads) != before+1 || !bytes.Equal(sPing.payloads[len(sPing.payloads)-1], rAck.pl) {
				fail("ping/ack", "ack payload of %d bytes did not come back intact (%d completions)", n, len(sPing.payloads)-before)
			}
			if rr := findRec(s.M.VSnapshot(), r.Name); rr == nil || rr.State != ml.StateAlive {
				fail("ping/ack", "probe of a responsive peer ended with %s", recStr(rr))
			}
		}
		// ---- 5: indirect ping, relayed ack, nack
		for _, answer := range []bool{true, false} {
			ghost := fresh(false)
			gip := ip4(byte(150 + ctr%50))
			gaddr := fmt.Sprintf("%s:7946", gip)
			for _, n := range []*node{s, r} {
				n.M.VAliveNode(&ml.VAlive{Incarnation: 1, Node: ghost, Addr: gip, Port: 7946, Vsn: []uint8{1, p.peerPMax(), 2, 2, 5, 4}}, nil, false)
			}
			advance(time.Microsecond)
			p.drainQueues()
			h0 := s.M.GetHealthScore()
			// harness plays the ghost for r's relayed ping only
			orig := r.T.OnSend
			r.T.OnSend = func(pk sentPkt) {
				if pk.To == gaddr && answer {
					if pl, err := peelPacket(pk.Buf, keys); err == nil {
						leaves, _ := explode(pl.Plain)
						for _, lf := range leaves {
							var pg ml.VPing
							if lf[0] == ml.VPingMsg && ml.VDecode(lf[1:], &pg) == nil {
								ack, _ := ml.VEncode(ml.VAckRespMsg, &ml.VAckResp{SeqNo: pg.SeqNo}, false)
								out := ack
								if l.Enc != "off" {
									out, _ = ml.VEncryptPayload(l.encVsn(), latKey(l.KeyLen), ack, []byte(l.Label))
								}
								out, _ = ml.AddLabelHeaderToPacket(out, l.Label)
								r.T.Deliver(out, simAddr(gaddr))
							}
						}
					}
				}
				orig(pk)
			}
			done := make(chan struct{})
			go func() { s.M.VProbeNodeByName(ghost); close(done) }()
			settle()
			time.Sleep(3 * time.Second)
			settle()
			<-done
			r.T.OnSend = orig
			cases++
			g := findRec(s.M.VSnapshot(), ghost)
			if answer {
				if g == nil || g.State != ml.StateAlive {
					fail("indirect-ping/relayed-ack", "target answered the relay but the prober holds %s", recStr(g))
				}
			} else {
				if g == nil || g.State != ml.StateSuspect {
					fail("indirect-ping/nack", "silent target is %s at the prober", recStr(g))
				}
				wantH := h0
				if p.peerPMax() < 4 {
					wantH = h0 + 1
				}
				if s.M.GetHealthScore() != wantH {
					fail("indirect-ping/nack", "health %d -> %d: the relay's nack did not arrive intact", h0, s.M.GetHealthScore())
				}
			}
			s.M.VApplyAwarenessDelta(-8)
			p.drainQueues()
		}
		// ---- 6: user best-effort, every AES block boundary
		var sizes []int
		if boundaryOnly {
			sizes = []int{0, 1, 15, 16, 17, 31, 32, 33, 47, 48, 1399, 1400}
		} else {
			for i := 0; i <= 48; i++ {
				sizes = append(sizes, i)
			}
			sizes = append(sizes, 255, 256, 1399, 1400, 9000)
			if thorough() {
				for i := 49; i <= 300; i++ {
					sizes = append(sizes, i)
				}
			}
		}
		for _, n := range sizes {
			for _, comp := range []bool{false, true} {
				if boundaryOnly && comp && n < 32 {
					continue
				}
				pl := payloadOf(n, comp)
				before := r.D.NumMsgs()
				p.Tap = nil
				must(s.M.SendBestEffort(p.nodeOf(r), pl))
				settle()
				cases++
				checkPeel("user-best-effort", append([]byte{ml.VUserMsg}, pl...), true)
				if r.D.NumMsgs() != before+1 || !bytes.Equal(r.D.Msgs[len(r.D.Msgs)-1], pl) {
					fail("user-best-effort", "payload of %d bytes (compressible=%v): delegate received %d messages, last %d bytes", n, comp, r.D.NumMsgs()-before, lastLen(r.D.Msgs))
				}
			}
		}
		// ---- 6b: the other public entry points for user messages (address-only, with a node name, the
		// deprecated aliases): same obligations as SendBestEffort / SendReliable
		for _, n := range []int{1, 16, 17, 47, 1400} {
			pl := payloadOf(n, n%2 == 1)
			apis := []struct {
				name string
				send func() error
			}{
				{"SendToAddress(addr)", func() error { return s.M.SendToAddress(ml.Address{Addr: rAddr}, pl) }},
				{"SendToAddress(addr,name)", func() error { return s.M.SendToAddress(ml.Address{Addr: rAddr, Name: r.Name}, pl) }},
				{"SendTo", func() error { return s.M.SendTo(r.Addr, pl) }},
				{"SendToUDP", func() error { return s.M.SendToUDP(p.nodeOf(r), pl) }},
				{"SendToTCP", func() error { return s.M.SendToTCP(p.nodeOf(r), pl) }},
			}
			for _, api := range apis {
				before := r.D.NumMsgs()
				p.Tap = nil
				err := api.send()
				settle()
				cases++
				if l.ReqNames && (api.name == "SendToAddress(addr)" || api.name == "SendTo") {
					// the configuration demands a recipient name and the caller gave none: refused, nothing sent
					if err == nil || len(p.Tap) != 0 || r.D.NumMsgs() != before {
						fail("user-api:"+api.name, "RequireNodeNames: err=%v, %d packets left the node, delegate received %d messages", err, len(p.Tap), r.D.NumMsgs()-before)
					}
					continue
				}
				if api.name != "SendToTCP" {
					checkPeel("user-api:"+api.name, append([]byte{ml.VUserMsg}, pl...), api.name == "SendToUDP")
				}
				if err != nil || r.D.NumMsgs() != before+1 || !bytes.Equal(r.D.Msgs[len(r.D.Msgs)-1], pl) {
					fail("user-api:"+api.name, "payload of %d bytes: err=%v, delegate received %d messages, last %d bytes", n, err, r.D.NumMsgs()-before, lastLen(r.D.Msgs))
				}
			}
		}
		// ---- 7: gossip round: several membership + user broadcasts
		for _, k := range []int{1, 2, 5} {
			var names []string
			for i := 0; i < k; i++ {
				nm := fresh(i%2 == 1)
				names = append(names, nm)
				a := &ml.VAlive{Incarnation: 3, Node: nm, Addr: ip4(201), Port: 7946, Meta: payloadOf(i*7, true), Vsn: c12Vsn}
				buf, _ := ml.VEncode(ml.VAliveMsg, a, l.NewTime)
				s.M.VQueueBroadcast(nm, buf, nil)
			}
			s.D.Bcasts = [][]byte{payloadOf(5, false), payloadOf(40, true)}
			before := r.D.NumMsgs()
			// which peers a gossip round picks is the implementation's (random)
			// choice: whatever it sends to anyone is handed to r
			origS := s.T.OnSend
			s.T.OnSend = func(pk sentPkt) {
				p.Tap = append(p.Tap, tapRec{From: s.Name, To: pk.To, Buf: pk.Buf})
				r.T.Deliver(pk.Buf, s.Addr)
			}
			s.M.VGossip()
			settle()
			s.T.OnSend = origS
			cases++
			for i, nm := range names {
				rec := findRec(r.M.VSnapshot(), nm)
				if rec == nil || rec.State != ml.StateAlive || rec.Incarnation != 3 || !bytes.Equal(rec.Meta, payloadOf(i*7, true)) && i > 0 {
					fail("gossip", "broadcast about %s did not arrive intact: %s", nm[:5], recStr(rec))
				}
			}
			// the receiver's hand-off queue is LIFO: compare as a multiset
			okU := r.D.NumMsgs() == before+2
			if okU {
				a, bb := r.D.Msgs[before], r.D.Msgs[before+1]
				okU = (bytes.Equal(a, payloadOf(5, false)) && bytes.Equal(bb, payloadOf(40, true))) || (bytes.Equal(bb, payloadOf(5, false)) && bytes.Equal(a, payloadOf(40, true)))
			}
			if !okU {
				fail("gossip", "user broadcasts: %d delivered", r.D.NumMsgs()-before)
			}
			p.drainQueues()
			r.M.VBroadcasts().Reset()
		}
		// ---- 8: push/pull both directions of state
		for _, join := range []bool{true, false} {
			for _, us := range []int{0, 1, 2000} {
				s.D.Local, r.D.Local = nil, nil
				if us > 0 {
					s.D.Local, r.D.Local = payloadOf(us, true), payloadOf(us+3, false)
				}
				extra := fresh(true)
				s.M.VAliveNode(&ml.VAlive{Incarnation: 9, Node: extra, Addr: ip4(202), Port: 7946, Meta: payloadOf(33, false), Vsn: c12Vsn}, nil, false)
				advance(time.Microsecond)
				sm, rm := len(s.D.Merged), len(r.D.Merged)
				incS, incR := s.M.VSnapshot().Incarnation, r.M.VSnapshot().Incarnation
				err := s.M.VPushPullNode(rAddr, r.Name, join)
				settle()
				cases++
				if err != nil {
					fail("push/pull", "join=%v user=%dB: %v", join, us, err)
					continue
				}
				rec := findRec(r.M.VSnapshot(), extra)
				if rec == nil || rec.State != ml.StateAlive || rec.Incarnation != 9 || !bytes.Equal(rec.Meta, payloadOf(33, false)) {
					fail("push/pull", "remote list entry did not arrive intact: %s", recStr(rec))
				}
				// the initiator's own entry, version vector included, as each side sees it
				want := s.Cfg.BuildVsnArray()
				if me, there := findRec(s.M.VSnapshot(), s.Name), findRec(r.M.VSnapshot(), s.Name); me == nil || there == nil || me.Vsn != [6]uint8(want) || there.Incarnation > me.Incarnation || (there.Incarnation == me.Incarnation && there.Vsn != me.Vsn) {
					fail("push/pull", "the initiator advertises version vector %v (record %s); the host holds %s", want, recStr(me), recStr(there))
				}
				// (in the cells where the harness introduced the peers with a lowered protocol maximum the
				// peers rightly correct that entry: only the cells with truthful introductions are judged)
				if a, bb := s.M.VSnapshot().Incarnation, r.M.VSnapshot().Incarnation; p.peerPMax() == 5 && (a != incS || bb != incR) {
					fail("push/pull", "an exchange between two healthy nodes made one of them refute (incarnations %d->%d, %d->%d)", incS, a, incR, bb)
				}
				if us > 0 {
					if len(r.D.Merged) != rm+1 || !bytes.Equal(r.D.Merged[rm], s.D.Local) || r.D.MergedJoin[rm] != join {
						fail("push/pull", "host did not receive the %d-byte user state intact", us)
					}
					if len(s.D.Merged) != sm+1 || !bytes.Equal(s.D.Merged[sm], r.D.Local) {
						fail("push/pull", "initiator did not receive the %d-byte user state intact", us+3)
					}
				}
				p.drainQueues()
			}
		}
		// ---- 9: user reliable
		rel := []int{1, 15, 16, 17, 65000}
		if !boundaryOnly {
			rel = append(rel, 2, 31, 32, 33, 255, 4095, 4096, 4097)
		}
		for _, n := range rel {
			pl := payloadOf(n, n%2 == 0)
			before := r.D.NumMsgs()
			ns := len(p.StreamsS2R)
			err := s.M.SendReliable(p.nodeOf(r), pl)
			settle()
			cases++
			if err != nil || r.D.NumMsgs() != before+1 || !bytes.Equal(r.D.Msgs[len(r.D.Msgs)-1], pl) {
				fail("user-reliable", "payload of %d bytes: err=%v, delegate got %d messages, last %d bytes", n, err, r.D.NumMsgs()-before, lastLen(r.D.Msgs))
				continue
			}
			// peel the stream ourselves
			if len(p.StreamsS2R) == ns+1 {
				lb, frames, err := peelStream(p.StreamsS2R[ns], keys, l.Enc != "off")
				if err != nil || lb != l.Label || len(frames) != 1 {
					fail("user-reliable", "stream does not peel: label %q frames %d err %v", lb, len(frames), err)
				} else if inner, err := unwrapStreamFrame(frames[0]); err != nil || len(inner) < 1 || inner[0] != ml.VUserMsg || !bytes.HasSuffix(inner, pl) {
					fail("user-reliable", "peeled stream plaintext does not end with the payload (err %v)", err)
				}
			}
		}
		// ---- 10: TCP fallback ping + ack
		for _, seq := range []uint32{0, 1, math.MaxUint32} {
			ok, err := s.M.VSendPingAndWaitForAck(rAddr, r.Name, seq, time.Now().Add(time.Second))
			settle()
			cases++
			if !ok || err != nil {
				fail("tcp-ping/ack", "seq %d: ok=%v err=%v", seq, ok, err)
			}
		}
	})
	if res.Panic != nil {
		fail("panic", "%v", res.Panic)
	}
	if res.Leak {
		fail("leak", "goroutines still blocked after shutdown")
	}
	return
}

func pairNamesS(l lat) string { s, _ := pairNames(l); return s }
func lastLen(m [][]byte) int {
	if len(m) == 0 {
		return -1
	}
	return len(m[len(m)-1])
}

func TestC12(t *testing.T) {
	rep := newReport()
	defer rep.Write(t)
	cells := c12Cells(thorough())
	rep.Bounds = map[string]any{"cells": len(cells), "families": "alive, suspect, dead, ping+ack(payload), indirect ping+relayed ack, indirect ping+nack, user best-effort, gossip single/compound incl. user broadcasts, push/pull (join and not, user state 0/1/2000 B), user reliable, TCP ping+ack"}
	rep.Rule = "every cell of encryption{off,v0,v1} x key size{16,24,32} x compression x label{none,1 B,255 B} x peer checksum support x msgpack time format, every message family, field menu (1/255-char names, meta 0/1/512 B, incarnation/seq 0,1,2^32-1, port 0/1/65535, payload lengths around every AES block boundary, 1399/1400/9000, 65000 on streams); a case is non-trivial when the receiver's observable effect and the independently peeled bytes both match the sender's input"
	rep.Assumptions = []string{"an empty user payload on the stream path carries no bytes to deliver and is not judged (the packet path notifies with an empty slice, the stream path does not)", "AES-GCM nonces are random and play no role in comparisons"}
	var rp struct {
		L lat `json:"cell"`
	}
	if loadReplay(&rp) {
		fails, n := runC12Cell(t, rp.L, rep, false)
		for _, f := range fails {
			t.Logf("replay: %+v", f)
			rep.Violate(f.Family, f.Detail, rp)
		}
		rep.Evaluations, rep.Distinct = n, n
		rep.Samples = append(rep.Samples, rp.L.String())
		return
	}
	// every cell twice: streams delivered whole, and in fragments of 1, 2, 3 or 5 bytes
	n0 := len(cells)
	for i := 0; i < n0; i++ {
		l := cells[i]
		l.Frag = []int{1, 2, 3, 5}[i%4]
		cells = append(cells, l)
	}
	for i, l := range cells {
		if !mine(i) {
			continue
		}
		if rep.OverBudget() {
			break
		}
		journal("C12 cell %v", l)
		fails, n := runC12Cell(t, l, rep, false)
		rep.Evaluations += n
		if len(fails) == 0 {
			rep.Distinct += n
			rep.Outcome("cell-ok")
		}
		for _, f := range fails {
			rep.Outcome("violation:" + f.Family)
			rep.Violate("roundtrip:"+f.Family, f.Cell+": "+f.Detail, map[string]any{"cell": l})
		}
		if i%40 == 0 {
			rep.Sample(map[string]any{"cell": l.String(), "cases": n})
		}
	}
}

// c12Vsn: version vector of the third-party members in these worlds (their
// delegate range must contain the pair's delegate version 4).
var c12Vsn = []uint8{1, 5, 2, 2, 5, 4}
