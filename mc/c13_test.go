package mc

// C13 — hostile bytes never crash, hang or bypass the documented caps.
// Engine W as fault enumeration on the real listeners: every single-byte
// substitution (value menu), bit flip, truncation and doubling of genuine
// traffic in several security configurations, all short byte strings, deep
// nestings, every cut point of genuine and mutated streams (close and
// stall), over-cap declarations in every length-bearing field, 129
// simultaneous push/pulls and a full hand-off queue.

import (
	"bytes"
	"encoding/binary"
	"fmt"
	"runtime"
	"strings"
	"testing"
	"time"

	ml "github.com/hashicorp/memberlist"
)

var c13Values = []byte{0x00, 0x01, 0x02, 0x03, 0x04, 0x05, 0x06, 0x07, 0x08, 0x09, 0x0a, 0x0b, 0x0c, 0x0d, 0x0e, 0x7f, 0x80, 0x81, 0x8f, 0x90, 0x9f, 0xa0, 0xc0, 0xc4, 0xc6, 0xca, 0xcf, 0xd9, 0xdb, 0xdc, 0xdd, 0xdf, 0xf4, 0xff}

func c13Cfgs() []rcfg {
	return []rcfg{
		{Keys: "", Label: "", EncVsn: 1},
		{Keys: "", Label: "ab", EncVsn: 1},
		{Keys: "", Label: "", EncVsn: 1, Comp: true},
		{Keys: "K1", Label: "", EncVsn: 1},
		{Keys: "K1", Label: "", EncVsn: 1, NoVerIn: true},
		{Keys: "K1", Label: "ab", EncVsn: 0},
		{Keys: "K1", Label: "", EncVsn: 0, NoVerIn: true, Comp: true},
	}
}

// decodable reports whether buf (after label/crypto layers were removed by
// us) decodes, by our own use of the codecs, to at least one well-formed
// membership claim or user message. Only used to decide whether "membership
// untouched" is required.
func undecodable(buf []byte) bool {
	leaves, err := explode(buf)
	if err != nil || len(leaves) == 0 {
		return true
	}
	for _, l := range leaves {
		if len(l) == 0 {
			continue
		}
		switch l[0] {
		case ml.VAliveMsg:
			var a ml.VAlive
			if ml.VDecode(l[1:], &a) == nil {
				return false
			}
		case ml.VSuspectMsg:
			var s ml.VSuspect
			if ml.VDecode(l[1:], &s) == nil {
				return false
			}
		case ml.VDeadMsg:
			var d ml.VDead
			if ml.VDecode(l[1:], &d) == nil {
				return false
			}
		case ml.VCompoundMsg, ml.VCompressMsg, ml.VHasCrcMsg:
			return false // nested further than we peel: do not judge
		}
	}
	return true
}

func memberState(n *node) string {
	s := n.M.VSnapshot()
	var sb strings.Builder
	for i := range s.Recs {
		x := &s.Recs[i]
		fmt.Fprintf(&sb, "%s:%s:i%d:%s|", x.Name, stateName(x.State), x.Incarnation, hostPort(x.Addr, x.Port))
	}
	return sb.String()
}

type c13Replay struct {
	Cfg    rcfg   `json:"cfg"`
	Stream bool   `json:"stream"`
	Mode   string `json:"mode"` // packet | close | stall
	Buf    []byte `json:"buf"`
	Desc   string `json:"desc"`
}

type c13Run struct {
	t     *testing.T
	rep   *Report
	b     *bubble
	cfg   rcfg
	rcv   *receiver
	since int
}

func (x *c13Run) fresh() {
	if x.rcv != nil {
		x.rcv.retire()
	}
	x.rcv = newReceiver(x.b, x.cfg)
	x.since = 0
}

// alive: a genuine ping must still be answered (listener not wedged).
func (x *c13Run) livenessProbe(ctx string) {
	c := x.cfg
	p, _ := ml.VEncode(ml.VPingMsg, &ml.VPing{SeqNo: 4242, Node: twinR, SourceAddr: ip4(1), SourcePort: 7946, SourceNode: twinS}, false)
	out := p
	if ks := c.keyList(); len(ks) > 0 {
		out, _ = ml.VEncryptPayload(c.EncVsn, ks[0], p, []byte(c.Label))
	}
	out, _ = ml.AddLabelHeaderToPacket(out, c.Label)
	x.rcv.n.T.TakeSent()
	x.rcv.injectPacket(out)
	answered := false
	for _, s := range x.rcv.n.T.TakeSent() {
		if pl, err := peelPacket(s.Buf, keysIf(c.keyList(), !c.NoVerOut)); err == nil {
			leaves, _ := explode(pl.Plain)
			for _, l := range leaves {
				var a ml.VAckResp
				if l[0] == ml.VAckRespMsg && ml.VDecode(l[1:], &a) == nil && a.SeqNo == 4242 {
					answered = true
				}
			}
		}
	}
	if !answered {
		x.rep.Violate("listener-dead", fmt.Sprintf("%v: a genuine ping is no longer answered after %s", c, ctx), nil)
		x.fresh()
	}
}

func (x *c13Run) packetCase(buf []byte, desc string) {
	if x.rep.OverBudget() {
		return // the internal budget is spent: the report says exhaustive=false
	}
	journal("C13 %v packet %s len=%d %x", x.cfg, desc, len(buf), buf[:min(len(buf), 48)])
	x.rep.Evaluations++
	before := ""
	judge := false
	// decide "undecodable" with our own peel
	if pl, err := peelPacket(buf, nil); err == nil && len(x.cfg.keyList()) == 0 && pl.Label == x.cfg.Label {
		judge = undecodable(pl.Plain)
	} else if err != nil {
		judge = true
	}
	if judge {
		before = memberState(x.rcv.n)
	}
	x.rcv.injectPacket(buf)
	if judge {
		if after := memberState(x.rcv.n); after != before {
			x.rep.Violate("undecodable-input-changed-membership", fmt.Sprintf("%v %s: %s -> %s", x.cfg, desc, before, after), c13Replay{x.cfg, false, "packet", buf, desc})
		}
		x.rep.Outcome("undecodable-no-effect")
	} else {
		x.rep.Outcome("decodable-or-opaque")
	}
	x.since++
	if x.since%400 == 0 {
		x.livenessProbe(desc)
		if x.since >= 4000 {
			x.fresh()
		}
	}
}

type pendingStream struct {
	conn *simConn
	desc string
	buf  []byte
	mode string
}

// streamBatch opens all inputs (mode close: half-close after the bytes; mode
// stall: silence), lets 2*TCPTimeout pass and requires every handler to have
// ended and closed its side.
func (x *c13Run) streamBatch(inputs []pendingStream) {
	if x.rep.OverBudget() {
		return
	}
	before := memberState(x.rcv.n)
	allUndecodable := true
	for i := range inputs {
		in := &inputs[i]
		journal("C13 %v stream/%s %s len=%d", x.cfg, in.mode, in.desc, len(in.buf))
		x.rep.Evaluations++
		_, hc := x.rcv.injectStream(in.buf, in.mode == "close", 0)
		in.conn = hc
		if in.mode == "genuine" {
			allUndecodable = false
		}
	}
	settle()
	time.Sleep(2*x.rcv.n.Cfg.TCPTimeout + time.Second)
	settle()
	for _, in := range inputs {
		if !in.conn.IsClosed() {
			x.rep.Violate("stream-handler-leaked:"+in.mode, fmt.Sprintf("%v %s: connection not closed %v after the input ended (%s)", x.cfg, in.desc, 2*x.rcv.n.Cfg.TCPTimeout, in.mode), c13Replay{x.cfg, true, in.mode, in.buf, in.desc})
			x.rep.Outcome("leak")
		} else {
			x.rep.Outcome("stream-closed:" + in.mode)
		}
	}
	if s := x.rcv.n.M.VSnapshot(); s.PushPullReq != 0 {
		x.rep.Violate("pushpull-counter-leaked", fmt.Sprintf("%v: %d push/pull requests still counted after all streams ended", x.cfg, s.PushPullReq), nil)
	}
	if allUndecodable && len(x.cfg.keyList()) > 0 && !x.cfg.NoVerIn {
		if after := memberState(x.rcv.n); after != before {
			x.rep.Violate("unauthenticated-stream-changed-membership", fmt.Sprintf("%v: %s -> %s", x.cfg, before, after), nil)
		}
	}
	x.livenessProbe("stream batch")
	x.fresh()
}

func TestC13(t *testing.T) {
	rep := newReport()
	defer rep.Write(t)
	cfgs := c13Cfgs()
	vals := c13Values
	rep.Rule = "per security configuration (7): every single-byte substitution by each of 34 values (thorough: all 256), every bit flip, truncation and doubling of 10 genuine packet families; all byte strings of length <= 2 and length 3 with a known first byte; compound/compress nestings to depth 64; for 4 genuine stream families every cut point x {close, stall until the deadline} and every single-byte substitution at every position (close); over-cap declarations in every length field; 129 simultaneous push/pulls; hand-off queue at depth and depth+1"
	rep.Assumptions = []string{"a panic in any goroutine of the node kills the worker and is attributed to the journalled case", "heap growth is measured with runtime.ReadMemStats around over-cap cases"}
	rep.Bounds = map[string]any{"configs": len(cfgs), "substitution_values": len(vals)}
	if thorough() {
		vals = make([]byte, 256)
		for i := range vals {
			vals[i] = byte(i)
		}
	}
	var rp c13Replay
	if loadReplay(&rp) {
		res := inBubble(t, func(b *bubble) {
			installDetRand()
			x := &c13Run{t: t, rep: rep, b: b, cfg: rp.Cfg}
			x.fresh()
			if rp.Stream {
				x.streamBatch([]pendingStream{{buf: rp.Buf, desc: rp.Desc, mode: rp.Mode}})
			} else {
				x.packetCase(rp.Buf, rp.Desc)
				x.livenessProbe("replay")
			}
		})
		if res.Panic != nil || res.Leak {
			rep.Violate("replay-panic-or-leak", fmt.Sprint(res.Panic, res.Leak), rp)
		}
		rep.Distinct = 2
		rep.Samples = append(rep.Samples, rp.Desc)
		return
	}
	idx := 0
	for ci, cfg := range cfgs {
		res := inBubble(t, func(b *bubble) {
			installDetRand()
			seeds := captureSeeds(b, cfg)
			x := &c13Run{t: t, rep: rep, b: b, cfg: cfg}
			x.fresh()
			// ---- A: packet mutations
			for _, sd := range seeds {
				if sd.Stream {
					continue
				}
				idx++
				if !mine(idx) {
					continue
				}
				for off := 0; off < len(sd.Buf); off++ {
					for _, v := range vals {
						if v == sd.Buf[off] {
							continue
						}
						buf := append([]byte(nil), sd.Buf...)
						buf[off] = v
						x.packetCase(buf, fmt.Sprintf("%s byte %d := %#02x", sd.Family, off, v))
					}
					for bit := 0; bit < 8; bit++ {
						buf := append([]byte(nil), sd.Buf...)
						buf[off] ^= 1 << bit
						x.packetCase(buf, fmt.Sprintf("%s flip %d.%d", sd.Family, off, bit))
					}
					x.packetCase(append([]byte(nil), sd.Buf[:off]...), fmt.Sprintf("%s truncated to %d", sd.Family, off))
				}
				x.packetCase(append(append([]byte(nil), sd.Buf...), sd.Buf...), sd.Family+" doubled")
			}
			x.livenessProbe("packet mutations")
			// ---- B: short strings (plain and encrypted-without-verification receivers)
			if cfg.Keys == "" && cfg.Label == "" && !cfg.Comp || (cfg.NoVerIn && cfg.EncVsn == 1) {
				for a := 0; a < 256; a++ {
					idx++
					if !mine(idx) {
						continue
					}
					x.packetCase([]byte{byte(a)}, "1-byte")
					for c := 0; c < 256; c++ {
						x.packetCase([]byte{byte(a), byte(c)}, "2-byte")
					}
				}
				for _, first := range []byte{0, 1, 2, 3, 4, 5, 6, 7, 8, 9, 10, 11, 12, 13, 244} {
					idx++
					if !mine(idx) {
						continue
					}
					for c := 0; c < 256; c++ {
						for _, d := range c13Values {
							x.packetCase([]byte{first, byte(c), d}, "3-byte")
						}
					}
				}
				x.packetCase(nil, "empty")
			}
			// ---- C: nestings
			if idx++; mine(idx) && cfg.Keys == "" {
				inner, _ := ml.VEncode(ml.VAliveMsg, &ml.VAlive{Incarnation: 1, Node: "deep", Addr: ip4(60), Port: 7946, Vsn: defaultVsn}, false)
				cmp, cmz := inner, inner
				for d := 1; d <= 64; d++ {
					cmp = ml.VMakeCompound([][]byte{cmp})
					z, err := ml.VCompressPayload(cmz, false)
					must(err)
					cmz = z
					for _, m := range [][]byte{cmp, cmz} {
						lab, _ := ml.AddLabelHeaderToPacket(m, cfg.Label)
						if len(lab) < 65000 {
							x.packetCase(lab, fmt.Sprintf("nesting depth %d", d))
						}
					}
				}
				// a small compressed packet that inflates to a compound message of more than 64 KiB (the part
				// lengths are 16-bit, their sum is not): well-formed, under every cap, tiny on the wire
				for _, shape := range [][2]int{{3, 30000}, {2, 40000}, {9, 10000}, {255, 300}, {2, 65535}, {70, 1000}} {
					var parts [][]byte
					for i := 0; i < shape[0]; i++ {
						parts = append(parts, append([]byte{ml.VUserMsg}, bytes.Repeat([]byte{byte('a' + i%7)}, shape[1]-1)...))
					}
					z, err := ml.VCompressPayload(ml.VMakeCompound(parts), false)
					must(err)
					lab, _ := ml.AddLabelHeaderToPacket(z, cfg.Label)
					got := x.rcv.n.D.NumMsgs()
					x.packetCase(lab, fmt.Sprintf("compressed compound of %d x %d bytes (%d on the wire)", shape[0], shape[1], len(lab)))
					settle()
					if d := x.rcv.n.D.NumMsgs() - got; d != 0 && d != shape[0] {
						x.rep.Violate("large-compound-partly-delivered", fmt.Sprintf("%v: %d of %d user messages of a %d-byte compound reached the delegate", cfg, d, shape[0], shape[0]*shape[1]), nil)
					}
				}
				x.livenessProbe("large compounds")
				// compound claiming 255 parts with nothing behind it, and recursive self-similar junk
				x.packetCase(append([]byte{ml.VCompoundMsg, 255}, bytes.Repeat([]byte{0xff}, 600)...), "compound 255 parts of 65535")
				x.packetCase(append([]byte{ml.VCompoundMsg}, bytes.Repeat([]byte{ml.VCompoundMsg}, 3000)...), "compound of compounds")
				x.livenessProbe("nestings")
			}
			// ---- D: stream cut points and substitutions
			for _, sd := range seeds {
				if !sd.Stream {
					continue
				}
				idx++
				if !mine(idx) {
					continue
				}
				var batch []pendingStream
				flush := func() {
					if len(batch) > 0 {
						x.streamBatch(batch)
						batch = nil
					}
				}
				step := 1
				if !thorough() && len(sd.Buf) > 120 {
					step = 3
				}
				for k := 0; k < len(sd.Buf); k += step {
					batch = append(batch, pendingStream{buf: append([]byte(nil), sd.Buf[:k]...), desc: fmt.Sprintf("%s cut at %d then close", sd.Family, k), mode: "close"})
					batch = append(batch, pendingStream{buf: append([]byte(nil), sd.Buf[:k]...), desc: fmt.Sprintf("%s cut at %d then stall", sd.Family, k), mode: "stall"})
					if len(batch) >= 60 {
						flush()
					}
				}
				flush()
				for off := 0; off < len(sd.Buf); off++ {
					for vi, v := range vals {
						if v == sd.Buf[off] || (!thorough() && vi%3 != off%3) {
							continue
						}
						buf := append([]byte(nil), sd.Buf...)
						buf[off] = v
						batch = append(batch, pendingStream{buf: buf, desc: fmt.Sprintf("%s byte %d := %#02x then close", sd.Family, off, v), mode: "close"})
						if len(batch) >= 90 {
							flush()
						}
					}
				}
				flush()
				// the environment refuses every deadline on the stream (a custom transport's conn, a socket
				// already reset by the peer): whatever arrives - nothing, a prefix, all of it - and then ends,
				// the handler must end too and close its side
				simDeadlineErr = true
				for _, k := range []int{0, 1, 2, len(sd.Buf) / 2, len(sd.Buf) - 1, len(sd.Buf)} {
					if k < 0 || k > len(sd.Buf) {
						continue
					}
					batch = append(batch, pendingStream{buf: append([]byte(nil), sd.Buf[:k]...), desc: fmt.Sprintf("%s cut at %d then close, deadlines refused", sd.Family, k), mode: "close"})
				}
				flush()
				simDeadlineErr = false
			}
			// ---- multi-step hostile sequences
			if idx++; mine(idx) {
				c13Sequences(x, seeds)
			}
			// ---- E..F only once per configuration class
			if idx++; mine(idx) {
				c13Caps(x)
			}
			if idx++; mine(idx) && ci == 0 {
				c13Concurrency(x)
			}
			x.rcv.retire()
		})
		if res.Panic != nil {
			rep.Violate("panic", fmt.Sprintf("%v: %v", cfg, res.Panic), nil)
		}
		if res.Leak {
			rep.Violate("goroutine-leak", fmt.Sprintf("%v: goroutines of the node still blocked after shutdown", cfg), nil)
		}
	}
	rep.Distinct = rep.Evaluations
	rep.Sample(map[string]any{"config": cfgs[3].String(), "example": "alive byte 17 := 0xc0; pushpull-join cut at 41 then stall"})
}

// wrapStream builds a stream carrying plain (type byte first) in cfg's framing.
func wrapStream(c rcfg, plain []byte) []byte {
	out := plain
	if ks := c.keyList(); len(ks) > 0 {
		var hdr [5]byte
		hdr[0] = ml.VEncryptMsg
		binary.BigEndian.PutUint32(hdr[1:], uint32(ml.VEncryptedLength(c.EncVsn, len(plain))))
		aad := append(append([]byte(nil), hdr[:]...), []byte(c.Label)...)
		ct, err := ml.VEncryptPayload(c.EncVsn, ks[0], plain, aad)
		must(err)
		out = append(hdr[:], ct...)
	}
	if c.Label != "" {
		out = append(append([]byte{ml.VHasLabelMsg, byte(len(c.Label))}, []byte(c.Label)...), out...)
	}
	return out
}

// c13Caps: declared sizes beyond the documented caps must be refused before
// the data is buffered.
func c13Caps(x *c13Run) {
	c := x.cfg
	x.fresh() // whatever ran before may have delivered decodable messages
	type capCase struct {
		desc  string
		plain []byte
		raw   []byte // if set, written as is (after label)
	}
	var cases []capCase
	hdr := func(nodes, user int, join bool) []byte {
		b, err := ml.VEncode(ml.VPushPullMsg, &ml.VPushPullHeader{Nodes: nodes, UserStateLen: user, Join: join}, false)
		must(err)
		return b
	}
	filler := bytes.Repeat([]byte{0x90}, 1<<20)
	for _, n := range []int{-1, ml.VMaxPushStateNodes + 1, 1<<31 - 1} {
		cases = append(cases, capCase{desc: fmt.Sprintf("push/pull header Nodes=%d", n), plain: append(hdr(n, 0, false), filler...)})
	}
	for _, n := range []int{-1, ml.VMaxPushStateBytes + 1, 1<<31 - 1} {
		cases = append(cases, capCase{desc: fmt.Sprintf("push/pull header UserStateLen=%d", n), plain: append(hdr(0, n, true), filler...)})
	}
	for _, n := range []int{-1, ml.VMaxUserMsgBytes + 1, 1<<31 - 1} {
		b, _ := ml.VEncode(ml.VUserMsg, &ml.VUserMsgHeader{UserMsgLen: n}, false)
		cases = append(cases, capCase{desc: fmt.Sprintf("user message header UserMsgLen=%d", n), plain: append(b, filler...)})
	}
	if len(c.keyList()) > 0 {
		for _, n := range []uint32{ml.VMaxPushStateBytes + 1, 1<<32 - 1} {
			var h [5]byte
			h[0] = ml.VEncryptMsg
			binary.BigEndian.PutUint32(h[1:], n)
			raw := append(h[:], filler...)
			if c.Label != "" {
				raw = append(append([]byte{ml.VHasLabelMsg, byte(len(c.Label))}, []byte(c.Label)...), raw...)
			}
			cases = append(cases, capCase{desc: fmt.Sprintf("encrypted length prefix %d", n), raw: raw})
		}
	}
	for _, cc := range cases {
		journal("C13 %v caps %s", c, cc.desc)
		x.rep.Evaluations++
		buf := cc.raw
		if buf == nil {
			buf = wrapStream(c, cc.plain)
		}
		before := memberState(x.rcv.n)
		var m0, m1 runtime.MemStats
		runtime.GC()
		runtime.ReadMemStats(&m0)
		_, hc := x.rcv.injectStream(buf, false, 0)
		settle()
		runtime.ReadMemStats(&m1)
		consumed := hc.ReadBytes
		time.Sleep(2*x.rcv.n.Cfg.TCPTimeout + time.Second)
		settle()
		if !hc.IsClosed() {
			x.rep.Violate("over-cap-stream-not-closed", fmt.Sprintf("%v %s", c, cc.desc), nil)
		}
		if cc.raw != nil {
			// clear length prefix: must be refused after the 5-byte header, i.e. within one buffer fill
			if consumed > 4096+300 {
				x.rep.Violate("over-cap-buffered", fmt.Sprintf("%v %s: the node pulled %d bytes off the stream after the declaration", c, cc.desc, consumed), nil)
			}
		}
		if grew := int64(m1.HeapAlloc) - int64(m0.HeapAlloc); grew > 16<<20 {
			x.rep.Violate("over-cap-allocated", fmt.Sprintf("%v %s: heap grew by %d MiB while handling the declaration", c, cc.desc, grew>>20), nil)
		}
		if after := memberState(x.rcv.n); after != before {
			x.rep.Violate("over-cap-changed-membership", fmt.Sprintf("%v %s", c, cc.desc), nil)
		}
		if len(x.rcv.n.D.Merged) != 0 || len(x.rcv.n.D.Msgs) != 0 {
			x.rep.Violate("over-cap-reached-delegate", fmt.Sprintf("%v %s", c, cc.desc), nil)
		}
		x.rep.Outcome("cap-refused")
		x.fresh()
	}
	// compressed blob that expands past the decompression cap
	if c.Keys == "" {
		journal("C13 %v caps decompression bomb", c)
		x.rep.Evaluations++
		big := make([]byte, ml.VMaxDecompressedBytes+4096)
		big[0] = ml.VPushPullMsg
		z, err := ml.VCompressPayload(big, false)
		must(err)
		big = nil
		before := memberState(x.rcv.n)
		lab, _ := ml.AddLabelHeaderToPacket(z, c.Label)
		_, hc := x.rcv.injectStream(lab, true, time.Second)
		x.rcv.injectPacket(lab)
		if !hc.IsClosed() || memberState(x.rcv.n) != before || len(x.rcv.n.D.Merged) != 0 {
			x.rep.Violate("decompression-cap", fmt.Sprintf("%v: a %d-byte blob expanding past the cap was not refused", c, len(z)), nil)
		}
		x.rep.Outcome("cap-refused")
		runtime.GC()
		x.fresh()
	}
}

type blockingDelegate struct {
	*delegateRec
	gate chan struct{}
	got  int
}

func (d *blockingDelegate) NotifyMsg(b []byte) {
	<-d.gate
	d.got++
}

func c13Concurrency(x *c13Run) {
	// ---- 129 simultaneous push/pulls, each stalled inside its state
	journal("C13 129 simultaneous push/pulls")
	x.rep.Evaluations++
	hb, _ := ml.VEncode(ml.VPushPullMsg, &ml.VPushPullHeader{Nodes: 5, UserStateLen: 0, Join: false}, false)
	buf := wrapStream(x.cfg, hb)
	var conns []*simConn
	for i := 0; i < ml.VMaxPushPullRequests+1; i++ {
		_, hc := x.rcv.injectStream(buf, false, 0)
		conns = append(conns, hc)
	}
	settle()
	refused := 0
	for _, c := range conns {
		if c.IsClosed() {
			refused++
		}
	}
	if pp := x.rcv.n.M.VSnapshot().PushPullReq; pp > ml.VMaxPushPullRequests || refused < 2 {
		x.rep.Violate("pushpull-concurrency-cap", fmt.Sprintf("%d push/pulls in progress, %d of 129 refused at once", pp, refused), nil)
	}
	time.Sleep(2*x.rcv.n.Cfg.TCPTimeout + time.Second)
	settle()
	open := 0
	for _, c := range conns {
		if !c.IsClosed() {
			open++
		}
	}
	if open != 0 || x.rcv.n.M.VSnapshot().PushPullReq != 0 {
		x.rep.Violate("pushpull-streams-leaked", fmt.Sprintf("%d still open, counter %d", open, x.rcv.n.M.VSnapshot().PushPullReq), nil)
	}
	x.livenessProbe("129 push/pulls")
	x.fresh()
	// ---- hand-off queue: depth and depth+1 while the handler is held
	journal("C13 hand-off queue overflow")
	x.rep.Evaluations++
	res := func() string {
		gate := make(chan struct{})
		bd := &blockingDelegate{delegateRec: &delegateRec{}, gate: gate}
		rn, err := newNode("hq", ip4(9), func(cf *ml.Config) { cf.Delegate = bd; cf.HandoffQueueDepth = 64 })
		must(err)
		x.b.track(rn)
		maxQ := 0
		for i := 0; i < 64+1+5; i++ {
			rn.T.Deliver(append([]byte{ml.VUserMsg}, byte(i)), simAddr("10.0.0.1:7946"))
			settle()
			if s := rn.M.VSnapshot(); s.LowQ > maxQ {
				maxQ = s.LowQ
			}
		}
		close(gate)
		settle()
		_ = rn.M.Shutdown()
		if maxQ > 64 {
			return fmt.Sprintf("queue reached %d entries for a depth of 64", maxQ)
		}
		if bd.got != 1+64 {
			return fmt.Sprintf("%d messages processed, expected 1 in flight + 64 queued", bd.got)
		}
		return ""
	}()
	if res != "" {
		x.rep.Violate("handoff-queue-depth", res, nil)
	}
	x.rep.Outcome("concurrency-caps")
}

// sealPacket wraps a plaintext message the way a sender configured with c would.
func sealPacket(c rcfg, plain []byte) []byte {
	out := plain
	if ks := c.keyList(); len(ks) > 0 {
		out, _ = ml.VEncryptPayload(c.EncVsn, ks[0], plain, []byte(c.Label))
	}
	out, _ = ml.AddLabelHeaderToPacket(out, c.Label)
	return out
}

// c13Sequences: hostile inputs that need state left behind by an earlier
// (genuine or hostile) input.
func c13Sequences(x *c13Run, seeds []seed) {
	c := x.cfg
	// (1) a relayed probe is pending (genuine indirect-ping), then acks and nacks for every nearby
	// sequence number, incl. the relay's own fresh number, from anybody
	x.fresh()
	for _, sd := range seeds {
		if sd.Family == "indirect-ping" {
			x.rcv.injectPacket(sd.Buf)
		}
	}
	for seq := uint32(0); seq <= 8; seq++ {
		for _, kind := range []uint8{ml.VNackRespMsg, ml.VAckRespMsg} {
			journal("C13 %v sequence indirect-ping then type %d seq %d", c, kind, seq)
			x.rep.Evaluations++
			var plain []byte
			if kind == ml.VNackRespMsg {
				plain, _ = ml.VEncode(kind, &ml.VNackResp{SeqNo: seq}, false)
			} else {
				plain, _ = ml.VEncode(kind, &ml.VAckResp{SeqNo: seq}, false)
			}
			x.rcv.injectPacket(sealPacket(c, plain))
			x.rcv.injectPacket(sealPacket(c, ml.VMakeCompound([][]byte{plain, plain})))
		}
	}
	x.livenessProbe("acks and nacks while a relayed probe is pending")
	x.rep.Outcome("sequence:relay-pending")
	// (1b) the same with an environment answer: the node's own transport refuses the relayed ping,
	// then the same acks and nacks arrive (the relay's number is a guessable counter)
	x.fresh()
	x.rcv.n.T.FailSend = func(p sentPkt) error {
		if p.To == "10.0.0.30:7946" {
			return fmt.Errorf("sendto: network is unreachable")
		}
		return nil
	}
	for _, sd := range seeds {
		if sd.Family == "indirect-ping" {
			x.rcv.injectPacket(sd.Buf)
		}
	}
	for seq := uint32(0); seq <= 8; seq++ {
		for _, kind := range []uint8{ml.VAckRespMsg, ml.VNackRespMsg} {
			journal("C13 %v sequence indirect-ping (relayed ping refused by the transport) then type %d seq %d", c, kind, seq)
			x.rep.Evaluations++
			var plain []byte
			if kind == ml.VNackRespMsg {
				plain, _ = ml.VEncode(kind, &ml.VNackResp{SeqNo: seq}, false)
			} else {
				plain, _ = ml.VEncode(kind, &ml.VAckResp{SeqNo: seq}, false)
			}
			x.rcv.injectPacket(sealPacket(c, plain))
			x.rcv.injectPacket(sealPacket(c, plain))
		}
	}
	x.rcv.n.T.FailSend = nil
	x.livenessProbe("acks and nacks after the relayed ping was refused by the transport")
	x.rep.Outcome("sequence:relay-send-refused")
	// (2) a node that has left (no alive local record) with a merge delegate, receiving join and
	// non-join push/pull lists whose entries carry short / empty / odd version vectors
	x.rcv.retire()
	mg := &mergeRec{}
	x.rcv = newReceiver(x.b, c, func(cf *ml.Config) { cf.Merge = mg })
	// ... and every peer it knew is dead: no alive record constrains the accepted version range
	for _, peer := range []string{twinS, "victim"} {
		x.rcv.n.M.VDeadNode(&ml.VDead{Incarnation: 1, Node: peer, From: "somebody"})
	}
	done := make(chan error, 1)
	go func() { done <- x.rcv.n.M.Leave(200 * time.Millisecond) }()
	settle()
	time.Sleep(300 * time.Millisecond)
	settle()
	<-done
	for _, vsn := range [][]uint8{nil, {}, {1}, {1, 5, 2}, {1, 5, 2, 0, 0}, {1, 5, 2, 0, 0, 0}, {1, 5, 2, 0, 0, 0, 9}, {0, 0, 0, 0, 0, 0}, {255, 255, 255, 255, 255, 255}} {
		for _, join := range []bool{true, false} {
			for _, st := range []ml.NodeStateType{ml.StateAlive, ml.StateDead, ml.NodeStateType(9)} {
				journal("C13 %v sequence left+merge-delegate push/pull vsn=%v join=%v state=%d", c, vsn, join, st)
				x.rep.Evaluations++
				nodes := []ml.VPushNodeState{{Name: "pp1", Addr: ip4(61), Port: 7946, Incarnation: 1, State: st, Vsn: vsn}, {Name: twinR, Addr: ip4(2), Port: 7946, Incarnation: 3, State: ml.StateAlive, Vsn: vsn}}
				buf := bytes.NewBuffer(nil)
				hdr, _ := ml.VEncode(ml.VPushPullMsg, &ml.VPushPullHeader{Nodes: len(nodes), UserStateLen: 0, Join: join}, false)
				buf.Write(hdr)
				for i := range nodes {
					e, _ := ml.VEncode(0, &nodes[i], false)
					buf.Write(e[1:])
				}
				_, hc := x.rcv.injectStream(wrapStream(c, buf.Bytes()), true, 0)
				settle()
				if !hc.IsClosed() {
					time.Sleep(2*x.rcv.n.Cfg.TCPTimeout + time.Second)
					settle()
					if !hc.IsClosed() {
						x.rep.Violate("stream-handler-leaked:sequence", fmt.Sprintf("%v left node, vsn=%v join=%v", c, vsn, join), nil)
					}
				}
			}
		}
	}
	x.rep.Outcome("sequence:left-node-with-merge-delegate")
	x.fresh()
}
