package mc

// C14 — inbound authentication. Engine W with a differential twin oracle:
// every single-bit flip, truncation, extension, splice and cross-key /
// cross-label / cross-version / cross-path replay of genuine ciphertext is
// injected into a pristine receiver; its observable effect must equal the
// no-input effect (dropped; a stream may get the generic error reply) or the
// effect of the genuine original — never a third outcome.

import (
	"bytes"
	"fmt"
	"strings"
	"testing"

	ml "github.com/hashicorp/memberlist"
)

type c14Cell struct {
	Name string
	R    rcfg // receiver
	S    rcfg // sender of the genuine traffic
}

func c14Cells() []c14Cell {
	l255 := strings.Repeat("q", 255)
	return []c14Cell{
		{"v1-K1-nolabel", rcfg{Keys: "K1", EncVsn: 1}, rcfg{Keys: "K1", EncVsn: 1}},
		{"v1-K2K1-label-ab-sealed-under-secondary", rcfg{Keys: "K2,K1", Label: "ab", EncVsn: 1}, rcfg{Keys: "K1", Label: "ab", EncVsn: 1}},
		{"v1-K1-label255", rcfg{Keys: "K1", Label: l255, EncVsn: 1}, rcfg{Keys: "K1", Label: l255, EncVsn: 1}},
		{"v0-K1-label-ab", rcfg{Keys: "K1", Label: "ab", EncVsn: 0}, rcfg{Keys: "K1", Label: "ab", EncVsn: 0}},
		{"v0-K1K2-nolabel", rcfg{Keys: "K1,K2", EncVsn: 0}, rcfg{Keys: "K1", EncVsn: 0}},
		{"v1-K1-label-a-compressed", rcfg{Keys: "K1", Label: "a", EncVsn: 1, Comp: true}, rcfg{Keys: "K1", Label: "a", EncVsn: 1, Comp: true}},
	}
}

type tamper struct {
	Class string `json:"class"`
	Seed  string `json:"seed"`
	Desc  string `json:"desc"`
	Buf   []byte `json:"buf"`
	// Auth: the input authenticates under the receiver's keys and label (replays only)
	MayAuth bool `json:"may_auth"`
}

// region names the part of the genuine input a byte offset falls in.
func regionOf(sd seed, label string, off int) string {
	lo := 0
	if label != "" {
		lo = 2 + len(label)
		if off < lo {
			return "label"
		}
	}
	o := off - lo
	if sd.Stream {
		if o == 0 {
			return "type"
		}
		if o < 5 {
			return "length"
		}
		o -= 5
	}
	switch {
	case o == 0:
		return "version"
	case o < 13:
		return "nonce"
	case off >= len(sd.Buf)-16:
		return "tag"
	}
	return "body"
}

func splitEffect(e string) (state, reply string) {
	i := strings.LastIndex(e, " reply=")
	return e[:i], e[i+7:]
}

type c14Replay struct {
	Cell   string `json:"cell"`
	Tamper tamper `json:"tamper"`
	Stream bool   `json:"stream"`
}

type c14Runner struct {
	t     *testing.T
	rep   *Report
	cell  c14Cell
	b     *bubble
	rcv   *receiver
	eff0  string // pristine state part
	cases int
}

func (x *c14Runner) fresh() {
	if x.rcv != nil {
		x.rcv.retire()
	}
	x.rcv = newReceiver(x.b, x.cell.R)
	st, _ := splitEffect(x.rcv.effect(nil))
	x.eff0 = st
}

// inject returns (state effect, reply class)
func (x *c14Runner) inject(buf []byte, stream bool) (string, string) {
	var reply []byte
	if stream {
		reply, _ = x.rcv.injectStream(buf, true, 0)
	} else {
		x.rcv.injectPacket(buf)
	}
	return splitEffect(x.rcv.effect(reply))
}

func (x *c14Runner) judge(sd seed, effG, replyG string, tm tamper) {
	x.cases++
	journal("C14 cell=%s seed=%s %s %s", x.cell.Name, sd.Family, tm.Class, tm.Desc)
	st, reply := x.inject(tm.Buf, sd.Stream)
	dropped := st == x.eff0 && (reply == "none" || (sd.Stream && reply == "error-reply"))
	if dropped {
		x.rep.Outcome("dropped:" + tm.Class)
		return
	}
	defer x.fresh()
	if st == effG && reply == replyG && effG != "" {
		x.rep.Outcome("accepted-as-original:" + tm.Class)
		if tm.Class == "replay" && !tm.MayAuth {
			x.rep.Violate("unauthenticated-input-accepted:"+tm.Class+":"+tm.Desc, fmt.Sprintf("cell %s seed %s: input that does not authenticate under the receiver's keys/label was acted on", x.cell.Name, sd.Family), c14Replay{x.cell.Name, tm, sd.Stream})
		}
		return
	}
	if tm.Class == "replay" && tm.MayAuth {
		x.rep.Outcome("replay-authenticated-other-effect")
		return // authenticates under an installed key with the node's label: acting on it is permitted
	}
	x.rep.Outcome("THIRD-OUTCOME:" + tm.Class)
	x.rep.Violate("tamper-accepted-different:"+tm.Class+":"+sd.Family, fmt.Sprintf("cell %s seed %s %s: effect is neither 'dropped' nor 'the original'. reply=%s; state differs from pristine: %v", x.cell.Name, sd.Family, tm.Desc, reply, st != x.eff0), c14Replay{x.cell.Name, tm, sd.Stream})
}

func TestC14(t *testing.T) {
	rep := newReport()
	defer rep.Write(t)
	cells := c14Cells()
	rep.Rule = "for every genuine message (9 packet families, 4 stream families) sealed under each cell's key/label/version: every single-bit flip of every byte, every truncation, two extensions, splices with another genuine ciphertext at every 16-byte boundary, plaintext of the same message, replay into every other cell's receiver (other key, removed key, foreign key, other label incl. prefix/extension, other version) and across packet/stream paths; twin oracle against a pristine receiver; non-trivial = tampered inputs whose class is distinct (cell, seed, class, offset)"
	rep.Bounds = map[string]any{"cells": len(cells), "keyrings": "K1 | K2,K1 (sealed under secondary) | K1,K2 | after RemoveKey | foreign K3", "labels": "none, a, ab, 255 B", "versions": "0 and 1"}
	rep.Assumptions = []string{"GossipVerifyIncoming on", "the receiver's observable effect = records, queue, health, pending probes, delegate callbacks, events, peeled packets sent, peeled stream reply"}
	var rp c14Replay
	replay := loadReplay(&rp)
	idx := 0
	for ci, cell := range cells {
		if replay && rp.Cell != cell.Name {
			continue
		}
		res := inBubble(t, func(b *bubble) {
			installDetRand()
			seeds := captureSeeds(b, cell.S)
			x := &c14Runner{t: t, rep: rep, cell: cell, b: b}
			x.fresh()
			if replay {
				sd := seed{Family: rp.Tamper.Seed, Stream: rp.Stream}
				var effG, replyG string
				for _, s0 := range seeds {
					if s0.Family == sd.Family && s0.Stream == sd.Stream {
						effG, replyG = x.inject(s0.Buf, s0.Stream)
						x.fresh()
					}
				}
				x.judge(sd, effG, replyG, rp.Tamper)
				return
			}
			// other cells' seeds for replays
			for si, sd := range seeds {
				idx++
				if !mine(idx) {
					continue
				}
				if rep.OverBudget() {
					break
				}
				// the genuine original on a pristine receiver
				effG, replyG := x.inject(sd.Buf, sd.Stream)
				if effG == x.eff0 && (replyG == "none") {
					rep.Outcome("genuine-without-observable-effect:" + sd.Family) // e.g. a nack for a plain Ping
				}
				x.fresh()
				rep.Outcome("genuine:" + sd.Family)
				// bit flips
				for off := 0; off < len(sd.Buf); off++ {
					reg := regionOf(sd, cell.S.Label, off)
					for bit := 0; bit < 8; bit++ {
						if !thorough() && reg == "body" && len(sd.Buf) > 200 && bit%4 != 0 && off%3 != 0 {
							continue // quick: thin out the interior of long bodies
						}
						buf := append([]byte(nil), sd.Buf...)
						buf[off] ^= 1 << bit
						x.judge(sd, effG, replyG, tamper{Class: "bitflip:" + reg, Seed: sd.Family, Desc: fmt.Sprintf("offset %d bit %d", off, bit), Buf: buf})
					}
				}
				// truncations
				for n := 0; n < len(sd.Buf); n++ {
					if !thorough() && len(sd.Buf) > 200 && n > 64 && n < len(sd.Buf)-64 && n%5 != 0 {
						continue
					}
					x.judge(sd, effG, replyG, tamper{Class: "truncate", Seed: sd.Family, Desc: fmt.Sprintf("to %d bytes", n), Buf: append([]byte(nil), sd.Buf[:n]...)})
				}
				// extensions
				x.judge(sd, effG, replyG, tamper{Class: "extend", Seed: sd.Family, Desc: "16 zero bytes", Buf: append(append([]byte(nil), sd.Buf...), make([]byte, 16)...)})
				if len(sd.Buf) >= 16 {
					x.judge(sd, effG, replyG, tamper{Class: "extend", Seed: sd.Family, Desc: "last block repeated", Buf: append(append([]byte(nil), sd.Buf...), sd.Buf[len(sd.Buf)-16:]...)})
				}
				// splices with the next seed of the same kind
				for sj := range seeds {
					o := seeds[(si+1+sj)%len(seeds)]
					if o.Stream != sd.Stream || o.Family == sd.Family {
						continue
					}
					lo := 0
					if cell.S.Label != "" {
						lo = 2 + len(cell.S.Label)
					}
					for k := lo + 16; k < len(sd.Buf) && k < len(o.Buf); k += 16 {
						buf := append(append([]byte(nil), sd.Buf[:k]...), o.Buf[k:]...)
						x.judge(sd, effG, replyG, tamper{Class: "splice", Seed: sd.Family, Desc: fmt.Sprintf("with %s at %d", o.Family, k), Buf: buf})
					}
					break
				}
				// cross-path replay
				if !sd.Stream {
					x.cases++
					st, reply := x.inject(sd.Buf, true)
					if !(st == x.eff0 && (reply == "none" || reply == "error-reply")) {
						rep.Violate("tamper-accepted-different:packet-on-stream-path", fmt.Sprintf("cell %s: packet ciphertext of %s replayed on the stream path had an effect (reply %s)", cell.Name, sd.Family, reply), nil)
						x.fresh()
					}
				} else {
					x.cases++
					st, reply := x.inject(sd.Buf, false)
					if st != x.eff0 || reply != "none" {
						rep.Violate("tamper-accepted-different:stream-on-packet-path", fmt.Sprintf("cell %s: stream ciphertext of %s replayed as a packet had an effect", cell.Name, sd.Family), nil)
						x.fresh()
					}
				}
			}
			// ---- replays of this cell's traffic into differently configured receivers
			if mine(1000 + ci) {
				others := []struct {
					name string
					r    rcfg
					auth bool
				}{
					{"foreign-key", rcfg{Keys: "K3", Label: cell.S.Label, EncVsn: cell.R.EncVsn}, false},
					{"other-label-extension", rcfg{Keys: cell.R.Keys, Label: cell.S.Label + "b", EncVsn: cell.R.EncVsn}, false},
					{"other-label", rcfg{Keys: cell.R.Keys, Label: "zz", EncVsn: cell.R.EncVsn}, false},
					{"label-prefix", rcfg{Keys: cell.R.Keys, Label: prefixOf(cell.S.Label), EncVsn: cell.R.EncVsn}, prefixOf(cell.S.Label) == cell.S.Label},
					{"skip-inbound-check-other-label", rcfg{Keys: cell.R.Keys, Label: "zz", EncVsn: cell.R.EncVsn, SkipLabel: true}, false},
					{"other-version-same-key", rcfg{Keys: cell.R.Keys, Label: cell.S.Label, EncVsn: 1 - cell.R.EncVsn}, true},
					{"no-label", rcfg{Keys: cell.R.Keys, Label: "", EncVsn: cell.R.EncVsn}, cell.S.Label == ""},
				}
				for _, oc := range others {
					if len(oc.r.Label) > 255 {
						continue
					}
					y := &c14Runner{t: t, rep: rep, cell: c14Cell{cell.Name + "->" + oc.name, oc.r, cell.S}, b: b}
					y.fresh()
					for _, sd := range seeds {
						y.judge(sd, "", "", tamper{Class: "replay", Seed: sd.Family, Desc: oc.name, Buf: sd.Buf, MayAuth: oc.auth})
					}
					x.cases += y.cases
					y.rcv.retire()
				}
				// removed key: receiver had K2 installed, removes it, then gets traffic sealed under K2
				{
					rc := rcfg{Keys: "K1,K2", Label: cell.S.Label, EncVsn: cell.R.EncVsn}
					sc := cell.S
					sc.Keys = "K2"
					k2seeds := captureSeeds(b, sc)
					y := &c14Runner{t: t, rep: rep, cell: c14Cell{cell.Name + "->removed-key", rc, sc}, b: b}
					y.fresh()
					// the documented rotation may install a key more than once (idempotent) before removing it
					must(y.rcv.n.Cfg.Keyring.AddKey(keyK2))
					must(y.rcv.n.Cfg.Keyring.AddKey(keyK2))
					must(y.rcv.n.Cfg.Keyring.RemoveKey(keyK2))
					for _, sd := range k2seeds {
						y.judge(sd, "", "", tamper{Class: "replay", Seed: sd.Family, Desc: "sealed-under-removed-key", Buf: sd.Buf, MayAuth: false})
						if y.rcv.n.Cfg.Keyring != nil && len(y.rcv.n.Cfg.Keyring.GetKeys()) >= 2 {
							// judge() replaced the receiver: repeat the install-twice/remove history
							must(y.rcv.n.Cfg.Keyring.AddKey(keyK2))
							must(y.rcv.n.Cfg.Keyring.AddKey(keyK2))
							must(y.rcv.n.Cfg.Keyring.RemoveKey(keyK2))
						}
					}
					x.cases += y.cases
					y.rcv.retire()
				}
				// the same with a ring whose constructor was handed the key twice (a keyring file with a repeated line)
				{
					rc := rcfg{Keys: "K1,K2,K3,K2", Label: cell.S.Label, EncVsn: cell.R.EncVsn}
					sc := cell.S
					sc.Keys = "K2"
					k2seeds := captureSeeds(b, sc)
					y := &c14Runner{t: t, rep: rep, cell: c14Cell{cell.Name + "->removed-key-listed-twice", rc, sc}, b: b}
					y.fresh()
					must(y.rcv.n.Cfg.Keyring.RemoveKey(keyK2))
					for _, sd := range k2seeds {
						y.judge(sd, "", "", tamper{Class: "replay", Seed: sd.Family, Desc: "sealed-under-removed-key-listed-twice", Buf: sd.Buf, MayAuth: false})
						if kr := y.rcv.n.Cfg.Keyring; kr != nil {
							for _, k := range kr.GetKeys() {
								if bytes.Equal(k, keyK2) {
									// judge() replaced the receiver: remove again
									must(kr.RemoveKey(keyK2))
									break
								}
							}
						}
					}
					x.cases += y.cases
					y.rcv.retire()
				}
				// key rotation racing a stream: the 5-byte header arrives, the sealing key is removed, then the body arrives
				{
					rc := rcfg{Keys: "K1,K2", Label: cell.S.Label, EncVsn: cell.R.EncVsn}
					sc := cell.S
					sc.Keys = "K2"
					k2seeds := captureSeeds(b, sc)
					for _, sd := range k2seeds {
						if !sd.Stream {
							continue
						}
						hdr := 5
						if sc.Label != "" {
							hdr += 2 + len(sc.Label)
						}
						if len(sd.Buf) <= hdr {
							continue
						}
						x.cases++
						journal("C14 cell=%s seed=%s key removed mid-stream", cell.Name, sd.Family)
						rcv := newReceiver(b, rc)
						st0, _ := splitEffect(rcv.effect(nil))
						c1, c2 := simPipe(simAddr("10.0.0.1:7946"), rcv.n.Addr)
						b.conns = append(b.conns, c1, c2)
						var reply []byte
						c2.onWrite = func(bs []byte) { reply = append(reply, bs...) }
						rcv.n.T.Accept(c2)
						_, _ = c1.Write(sd.Buf[:hdr])
						settle()
						must(rcv.n.Cfg.Keyring.RemoveKey(keyK2))
						_, _ = c1.Write(sd.Buf[hdr:])
						settle()
						c1.w.mu.Lock()
						c1.w.eof = true
						c1.w.signal()
						c1.w.mu.Unlock()
						settle()
						st, rp := splitEffect(rcv.effect(reply))
						if st != st0 || !(rp == "none" || rp == "error-reply") {
							rep.Violate("tamper-accepted-different:key-removed-mid-stream:"+sd.Family, fmt.Sprintf("cell %s: %s sealed under a key that was removed after the stream header arrived was still acted on (reply %s)", cell.Name, sd.Family, rp), nil)
						} else {
							rep.Outcome("dropped:key-removed-mid-stream")
						}
						rcv.retire()
					}
				}
				// plaintext of the same messages
				{
					pc := cell.S
					pc.Keys = ""
					pseeds := captureSeeds(b, pc)
					y := &c14Runner{t: t, rep: rep, cell: c14Cell{cell.Name + "->plaintext", cell.R, pc}, b: b}
					y.fresh()
					for _, sd := range pseeds {
						y.judge(sd, "", "", tamper{Class: "replay", Seed: sd.Family, Desc: "plaintext", Buf: sd.Buf, MayAuth: false})
					}
					x.cases += y.cases
					y.rcv.retire()
				}
			}
			rep.Evaluations += x.cases
			x.rcv.retire()
			if ci == 0 && len(seeds) > 0 {
				rep.Sample(map[string]any{"cell": cell.Name, "seed_families": len(seeds), "example": fmt.Sprintf("bitflip of %s packet (%d bytes)", seeds[0].Family, len(seeds[0].Buf))})
			}
		})
		if res.Panic != nil {
			rep.Violate("panic", fmt.Sprintf("cell %s: %v", cell.Name, res.Panic), nil)
		}
	}
	rep.Distinct = rep.Evaluations
	_ = ml.StateAlive
}

func prefixOf(l string) string {
	if len(l) <= 1 {
		return l
	}
	return l[:len(l)-1]
}
