package mc

// C15 — outbound confidentiality. A wire monitor checks every buffer handed
// to the simulated transport and every byte written on a simulated stream,
// in dedicated scenarios that force each send site once per configuration
// cell (incl. error replies, Leave, key rotation between two sends, first key
// installed after creation).

import (
	"bytes"
	"fmt"
	"net"
	"strings"
	"testing"
	"time"

	ml "github.com/hashicorp/memberlist"
)

type c15Cell struct {
	Label   string
	Comp    bool
	Proto   uint8
	PMax    uint8
	KeyLen  int
	LateKey bool // keyring configured empty at creation, first key installed afterwards
	Outer   bool `json:",omitempty"` // SkipInboundLabelCheck: an outer layer (the harness) strips inbound label headers
	ShortWr int  `json:",omitempty"` // > 0: every stream Write accepts at most this many bytes and reports no error
	Plain   bool `json:",omitempty"` // the application's transport is not node-aware (the library's shim carries the traffic)
	Secret  bool `json:",omitempty"` // the nodes are created with Keyring AND SecretKey; the application rotates through its own ring
}

func (c c15Cell) String() string {
	x := ""
	if c.Outer {
		x += " skip-inbound-label-check"
	}
	if c.ShortWr > 0 {
		x += fmt.Sprintf(" short-writes<=%dB", c.ShortWr)
	}
	if c.Secret {
		x += " keyring+secretkey"
	}
	if c.Plain {
		x += " plain-transport"
	}
	return fmt.Sprintf("label=%q comp=%v proto=%d peerpmax=%d key=%d latekey=%v%s", c.Label, c.Comp, c.Proto, c.PMax, c.KeyLen, c.LateKey, x)
}

type c15Mon struct {
	rep   *Report
	cell  c15Cell
	prim  map[string][]byte // node -> primary key at send time
	seenP int
	seenS map[string]int
	step  string
	sites map[string]int
}

func (m *c15Mon) violate(kind, f string, a ...any) {
	m.rep.Violate("cleartext:"+kind+":"+m.step, fmt.Sprintf("%v step=%s: ", m.cell, m.step)+fmt.Sprintf(f, a...), m.cell)
}

func hasCanary(b []byte) bool {
	return bytes.Contains(bytes.ToLower(b), []byte("canary"))
}

func (m *c15Mon) checkPacket(from string, buf []byte) {
	m.sites["packet:"+m.step]++
	if hasCanary(buf) {
		m.violate("canary", "a packet from %s contains a canary string in clear", from)
		return
	}
	rest, label, err := ml.RemoveLabelHeaderFromPacket(buf)
	if err != nil || label != m.cell.Label {
		m.violate("label", "packet from %s: label %q err %v", from, label, err)
		return
	}
	wantV := uint8(1)
	if m.cell.Proto == 1 {
		wantV = 0
	}
	if len(rest) < 29 || rest[0] != wantV {
		m.violate("not-ciphertext", "packet from %s (%d bytes) does not start with encryption version %d: % x", from, len(rest), wantV, rest[:min(len(rest), 12)])
		return
	}
	if _, err := ml.VDecryptPayload([][]byte{m.prim[from]}, append([]byte(nil), rest...), []byte(label)); err != nil {
		m.violate("wrong-key-or-aad", "packet from %s does not open under the sender's primary key with the label as associated data: %v", from, err)
	}
}

func (m *c15Mon) checkStream(from string, buf []byte, dialer bool) {
	if len(buf) == 0 {
		return
	}
	m.sites["stream:"+m.step]++
	if hasCanary(buf) {
		m.violate("canary", "a stream from %s contains a canary string in clear", from)
		return
	}
	var lb string
	var err error
	if dialer {
		lb, _, err = peelStream(buf, [][]byte{m.prim[from]}, true)
		if err == nil && lb != m.cell.Label {
			err = fmt.Errorf("label header %q", lb)
		}
	} else {
		_, _, err = peelStream(buf, [][]byte{m.prim[from]}, true, m.cell.Label)
	}
	if err != nil {
		m.violate("stream", "bytes written by %s on a stream are not [label header] + encrypted frames under its primary key with type|len|label as associated data: %v", from, err)
	}
}

func runC15Cell(t *testing.T, cell c15Cell, rep *Report) {
	k1 := bytes.Repeat([]byte{0xc1}, cell.KeyLen)
	k2 := bytes.Repeat([]byte{0xc2}, cell.KeyLen)
	res := inBubble(t, func(b *bubble) {
		installDetRand()
		mon := &c15Mon{rep: rep, cell: cell, prim: map[string][]byte{}, seenS: map[string]int{}, sites: map[string]int{}}
		l := lat{Enc: "off", Comp: cell.Comp, Label: cell.Label, PeerPMax: cell.PMax, Plain: cell.Plain}
		rings := map[string]*ml.Keyring{}
		p := newPairOpt(b, l, false, func(name string, c *ml.Config) {
			c.ProtocolVersion = cell.Proto
			c.ProbeTimeout = 300 * time.Millisecond
			c.IndirectChecks = 1
			var kr *ml.Keyring
			if cell.LateKey {
				kr, _ = ml.NewKeyring(nil, nil)
			} else {
				kr, _ = ml.NewKeyring(nil, k1)
			}
			c.Keyring = kr
			rings[name] = kr
			if cell.Secret {
				c.SecretKey = k1
			}
			c.SkipInboundLabelCheck = cell.Outer
		})
		p.OuterLayer = cell.Outer
		s, r := p.s, p.r
		// canary-bearing names need a custom pair: rename is impossible, so canaries ride in meta/payload/state
		if cell.LateKey {
			for _, kr := range rings {
				must(kr.AddKey(k1))
			}
		}
		mon.prim[s.Name], mon.prim[r.Name] = k1, k1
		s.D.SetMeta([]byte("CANARY-META-S"))
		r.D.SetMeta([]byte("CANARY-META-R"))
		s.D.Local, r.D.Local = []byte("CANARY-STATE-S"), []byte("CANARY-STATE-R")
		sweep := func(step string) {
			mon.step = step
			for ; mon.seenP < len(p.Tap); mon.seenP++ {
				mon.checkPacket(p.Tap[mon.seenP].From, p.Tap[mon.seenP].Buf)
			}
			for i := range p.StreamsS2R {
				key := fmt.Sprintf("s2r%d", i)
				if n := len(p.StreamsS2R[i]); n > mon.seenS[key] {
					mon.seenS[key] = n
				}
			}
		}
		// streams are judged whole, when each exchange is over
		judgeStreams := func(step string, dialer *node) {
			mon.step = step
			for i := range p.StreamsS2R {
				k := fmt.Sprintf("done%d", i)
				if mon.seenS[k] == 1 {
					continue
				}
				mon.seenS[k] = 1
				// the pair records by direction s->r / r->s; who dialled decides who wrote the label header
				mon.checkStream(s.Name, p.StreamsS2R[i], dialer == s)
				mon.checkStream(r.Name, p.StreamsR2S[i], dialer == r)
			}
		}
		rAddr, sAddr := string(r.Addr), string(s.Addr)
		// UpdateNode so that the canary meta is what gets gossiped
		for _, n := range []*node{s, r} {
			done := make(chan error, 1)
			go func() { done <- n.M.UpdateNode(time.Second) }()
			settle()
			<-done
		}
		// ---- join (push/pull request + reply, join=true)
		_, err := s.M.Join([]string{rAddr})
		settle()
		if err != nil {
			// a join between two identically configured nodes can only fail if something on the wire is wrong: let the monitor say what
			sweep("join")
			judgeStreams("join push/pull", s)
			rep.Violate("scenario-broken:join", fmt.Sprintf("%v: %v", cell, err), cell)
			return
		}
		sweep("join")
		judgeStreams("join push/pull", s)
		// ---- anti-entropy push/pull from the other side
		must(r.M.VPushPullNode(sAddr, s.Name, false))
		settle()
		sweep("push/pull")
		judgeStreams("anti-entropy push/pull", r)
		// ---- gossip: the join queued alive broadcasts; add user broadcasts
		s.D.Bcasts = [][]byte{[]byte("CANARY-USER-BCAST-1"), []byte("CANARY-USER-BCAST-2")}
		for i := 0; i < 3; i++ {
			s.M.VGossip()
			r.M.VGossip()
			settle()
		}
		sweep("gossip")
		s.M.VQueueBroadcast("only", append([]byte{ml.VUserMsg}, []byte("CANARY-SINGLE")...), nil)
		s.M.VGossip()
		settle()
		sweep("gossip-single")
		// ---- probe: ping + ack
		runProbe := func(n *node, target string) {
			done := make(chan struct{})
			go func() { n.M.VProbeNodeByName(target); close(done) }()
			settle()
			time.Sleep(3 * time.Second)
			settle()
			<-done
		}
		runProbe(s, r.Name)
		sweep("ping/ack")
		// ---- indirect ping, relayed ping, nack (ghost is silent), TCP fallback dial refused
		for _, n := range []*node{s, r} {
			n.M.VAliveNode(&ml.VAlive{Incarnation: 1, Node: "ghost", Addr: ip4(99), Port: 7946, Meta: []byte("CANARY-GHOST"), Vsn: []uint8{1, 5, cell.Proto, 0, 0, 0}}, nil, false)
		}
		advance(time.Microsecond)
		runProbe(s, "ghost")
		sweep("indirect-ping/nack")
		// ghost is now suspect at s: probing it again sends the ping+suspect compound
		runProbe(s, "ghost")
		sweep("ping+suspect compound")
		// ---- relayed ack: harness answers r's relayed ping as a second ghost
		for _, n := range []*node{s, r} {
			n.M.VAliveNode(&ml.VAlive{Incarnation: 1, Node: "ghost2", Addr: ip4(98), Port: 7946, Vsn: []uint8{1, 5, cell.Proto, 0, 0, 0}}, nil, false)
		}
		advance(time.Microsecond)
		orig := r.T.OnSend
		r.T.OnSend = func(pk sentPkt) {
			orig(pk)
			if pk.To != "10.0.0.98:7946" {
				return
			}
			if pl, err := peelPacket(pk.Buf, [][]byte{mon.prim[r.Name]}); err == nil {
				leaves, _ := explode(pl.Plain)
				for _, lf := range leaves {
					var pg ml.VPing
					if lf[0] == ml.VPingMsg && ml.VDecode(lf[1:], &pg) == nil {
						ack, _ := ml.VEncode(ml.VAckRespMsg, &ml.VAckResp{SeqNo: pg.SeqNo}, false)
						v := uint8(1)
						if cell.Proto == 1 {
							v = 0
						}
						out, _ := ml.VEncryptPayload(v, mon.prim[r.Name], ack, []byte(cell.Label))
						if !cell.Outer {
							out, _ = ml.AddLabelHeaderToPacket(out, cell.Label)
						}
						r.T.Deliver(out, simAddr("10.0.0.98:7946"))
					}
				}
			}
		}
		runProbe(s, "ghost2")
		r.T.OnSend = orig
		sweep("relayed ack")
		// ---- user messages
		must(s.M.SendBestEffort(p.nodeOf(r), []byte("CANARY-BEST-EFFORT")))
		must(s.M.SendToAddress(ml.Address{Addr: rAddr, Name: r.Name}, []byte("CANARY-SEND-TO-ADDRESS")))
		settle()
		sweep("user best-effort")
		must(s.M.SendToAddress(ml.Address{Addr: rAddr}, []byte("CANARY-SEND-TO-ADDRESS-NAMELESS")))
		must(s.M.SendTo(r.Addr, []byte("CANARY-SEND-TO")))
		must(s.M.SendToUDP(p.nodeOf(r), []byte("CANARY-SEND-TO-UDP")))
		// a destination the node has never heard of
		must(s.M.SendToAddress(ml.Address{Addr: "10.0.0.250:7946"}, []byte("CANARY-SEND-TO-STRANGER")))
		settle()
		sweep("user deprecated/nameless")
		must(s.M.SendReliable(p.nodeOf(r), []byte("CANARY-RELIABLE")))
		settle()
		judgeStreams("user reliable", s)
		must(s.M.SendToTCP(p.nodeOf(r), []byte("CANARY-SEND-TO-TCP")))
		settle()
		judgeStreams("user reliable (SendToTCP)", s)
		// ---- TCP fallback ping + its ack
		_, _ = s.M.VSendPingAndWaitForAck(rAddr, r.Name, 31337, time.Now().Add(time.Second))
		settle()
		judgeStreams("tcp ping/ack", s)
		// ---- error reply to an undecodable (clear) stream
		{
			c1, c2 := simPipe(simAddr("10.0.0.77:7946"), r.Addr)
			b.conns = append(b.conns, c1, c2)
			var reply []byte
			c2.onWrite = func(bs []byte) { reply = append(reply, bs...) }
			r.T.Accept(c2)
			junk := append([]byte(nil), []byte{ml.VPushPullMsg, 0x83, 0xa5}...)
			if cell.Label != "" && !cell.Outer {
				junk = append(append([]byte{ml.VHasLabelMsg, byte(len(cell.Label))}, []byte(cell.Label)...), junk...)
			}
			_, _ = c1.Write(junk)
			settle()
			mon.step = "error reply"
			if len(reply) == 0 {
				rep.AddExtra("error_reply_not_sent", 1)
			}
			mon.checkStream(r.Name, reply, false)
		}
		// ---- key rotation in progress: both install K2, s switches, sends
		for _, kr := range rings {
			must(kr.AddKey(k2))
		}
		must(rings[s.Name].UseKey(k2))
		mon.prim[s.Name] = k2
		must(s.M.SendBestEffort(p.nodeOf(r), []byte("CANARY-AFTER-USEKEY")))
		runProbe(s, r.Name)
		settle()
		sweep("after UseKey (rotation in progress)")
		must(s.M.SendReliable(p.nodeOf(r), []byte("CANARY-RELIABLE-2")))
		must(r.M.VPushPullNode(sAddr, s.Name, false))
		settle()
		mon.step = "streams during rotation"
		for i := range p.StreamsS2R {
			k := fmt.Sprintf("done%d", i)
			if mon.seenS[k] == 1 {
				continue
			}
			mon.seenS[k] = 1
			// first of the two was dialled by s, second by r
			mon.checkStream(s.Name, p.StreamsS2R[i], len(p.StreamsS2R)-i == 2)
			mon.checkStream(r.Name, p.StreamsR2S[i], len(p.StreamsS2R)-i == 1)
		}
		// ---- Leave: the departure is gossiped
		done := make(chan error, 1)
		go func() { done <- s.M.Leave(2 * time.Second) }()
		settle()
		for i := 0; i < 8; i++ {
			s.M.VGossip()
			settle()
		}
		time.Sleep(3 * time.Second)
		settle()
		<-done
		sweep("leave")
		rep.Evaluations += mon.seenP + len(p.StreamsS2R)*2
		for k, v := range mon.sites {
			rep.Outcomes[k] += v
		}
	})
	if res.Panic != nil {
		rep.Violate("panic", fmt.Sprintf("%v: %v", cell, res.Panic), cell)
	}
}

func TestC15(t *testing.T) {
	rep := newReport()
	defer rep.Write(t)
	rep.Rule = "per configuration cell (label none/5 B x compression x protocol 1,2,5 x peer checksum support x key installed at creation / afterwards; thorough: key sizes, 255-byte label) a scripted history forces every send site: UpdateNode gossip, join push/pull request+reply, anti-entropy push/pull, gossip compound and single, ping, ack, indirect ping, relayed ping, nack, relayed ack, ping+suspect compound, SendBestEffort, SendToAddress (named, nameless, to a stranger), SendTo, SendToUDP, SendReliable, SendToTCP, TCP fallback ping+ack, error reply to an undecodable stream, sends after UseKey during rotation, Leave; every packet and every stream byte is checked by the monitor; distinct = (cell, send site) pairs exercised"
	rep.Assumptions = []string{"'every code path' is shown for the send sites exercised by these histories (listed in outcomes), not by a structural proof", "keyring configured, GossipVerifyOutgoing on"}
	var cells []c15Cell
	for _, lb := range []string{"", "lbl55"} {
		for _, comp := range []bool{false, true} {
			for _, proto := range []uint8{1, 2, 5} {
				for _, pm := range []uint8{4, 5} {
					cells = append(cells, c15Cell{Label: lb, Comp: comp, Proto: proto, PMax: pm, KeyLen: 16})
				}
			}
		}
		cells = append(cells, c15Cell{Label: lb, Comp: true, Proto: 2, PMax: 5, KeyLen: 32, LateKey: true})
	}
	// a labelled node behind an outer layer that strips inbound label headers (SkipInboundLabelCheck)
	for _, proto := range []uint8{1, 5} {
		cells = append(cells, c15Cell{Label: "lbl55", Comp: proto == 5, Proto: proto, PMax: 5, KeyLen: 16, Outer: true})
	}
	// created with Keyring and SecretKey: the ring the application keeps (and rotates) is the one that counts
	for _, lb := range []string{"", "lbl55"} {
		cells = append(cells, c15Cell{Label: lb, Comp: true, Proto: 5, PMax: 5, KeyLen: 16, Secret: true})
	}
	// an application transport that is not node-aware
	for _, lb := range []string{"", "lbl55"} {
		for _, proto := range []uint8{1, 5} {
			cells = append(cells, c15Cell{Label: lb, Comp: proto == 1, Proto: proto, PMax: 5, KeyLen: 16, Plain: true})
		}
	}
	// streams whose Write takes only part of the buffer without reporting an error
	for _, lb := range []string{"", "lbl55"} {
		for _, sw := range []int{16, 40} {
			cells = append(cells, c15Cell{Label: lb, Comp: sw == 40, Proto: 5, PMax: 5, KeyLen: 16, ShortWr: sw})
		}
	}
	if thorough() {
		for _, kl := range []int{24, 32} {
			for _, proto := range []uint8{1, 3, 4} {
				cells = append(cells, c15Cell{Label: strings.Repeat("w", 255), Comp: true, Proto: proto, PMax: 5, KeyLen: kl}, c15Cell{Label: "x", Proto: proto, PMax: 4, KeyLen: kl, LateKey: true})
			}
		}
	}
	rep.Bounds = map[string]any{"cells": len(cells)}
	var rp c15Cell
	replay := loadReplay(&rp)
	for i, c := range cells {
		if replay && c != rp {
			continue
		}
		if !replay && !mine(i) {
			continue
		}
		journal("C15 %v", c)
		if c.ShortWr > 0 {
			runC15Short(t, c, rep)
			rep.Distinct += 3
			continue
		}
		runC15Cell(t, c, rep)
		rep.Distinct += 20
	}
	if replay && rep.Distinct < 2 {
		rep.Distinct = 2
	}
	rep.Sample(map[string]any{"cell": cells[0].String(), "history": "UpdateNode, Join, push/pull, gossip, probe, indirect probe, relayed ack, user messages, TCP ping, error reply, UseKey, Leave"})
	_ = net.IPv4zero
}

// runC15Short: every stream send site against conns whose Write takes only part of the buffer and
// reports no error. Whatever the node does about it (the code gives up with an error), nothing but
// label header and ciphertext may reach the stream.
func runC15Short(t *testing.T, cell c15Cell, rep *Report) {
	k1 := bytes.Repeat([]byte{0xc1}, cell.KeyLen)
	res := inBubble(t, func(b *bubble) {
		installDetRand()
		l := lat{Enc: "off", Comp: cell.Comp, Label: cell.Label, PeerPMax: cell.PMax}
		p := newPairOpt(b, l, true, func(name string, c *ml.Config) {
			c.ProtocolVersion = cell.Proto
			kr, _ := ml.NewKeyring(nil, k1)
			c.Keyring = kr
		})
		s, r := p.s, p.r
		s.D.SetMeta([]byte("CANARY-META-S"))
		r.D.SetMeta([]byte("CANARY-META-R"))
		s.D.Local, r.D.Local = []byte("CANARY-STATE-S-"+strings.Repeat("z", 60)), []byte("CANARY-STATE-R-"+strings.Repeat("z", 60))
		for _, n := range []*node{s, r} {
			done := make(chan error, 1)
			go func() { done <- n.M.UpdateNode(time.Second) }()
			settle()
			<-done
		}
		simShortWrite = cell.ShortWr
		defer func() { simShortWrite = 0 }()
		judge := func(step string) {
			for i := range p.StreamsS2R {
				for _, bs := range [][]byte{p.StreamsS2R[i], p.StreamsR2S[i]} {
					rep.Evaluations++
					if hasCanary(bs) {
						rep.Violate("cleartext:canary:"+step, fmt.Sprintf("%v step=%s: after a short write the node put plaintext on the stream (%d bytes written in all)", cell, step, len(bs)), cell)
						return
					}
					rest := bs
					if cell.Label != "" && len(rest) >= 2+len(cell.Label) && rest[0] == ml.VHasLabelMsg {
						rest = rest[2+len(cell.Label):]
					}
					if len(rest) > 0 && rest[0] != ml.VEncryptMsg {
						rep.Violate("cleartext:not-ciphertext:"+step, fmt.Sprintf("%v step=%s: stream bytes start with type %d", cell, step, rest[0]), cell)
						return
					}
				}
			}
		}
		_ = s.M.SendReliable(p.nodeOf(r), []byte("CANARY-RELIABLE-"+strings.Repeat("q", 80)))
		settle()
		judge("user reliable")
		_ = s.M.VPushPullNode(string(r.Addr), r.Name, false)
		settle()
		judge("push/pull")
		_, _ = s.M.VSendPingAndWaitForAck(string(r.Addr), r.Name, 4242, time.Now().Add(time.Second))
		settle()
		judge("tcp ping")
		_, _ = r.M.Join([]string{string(s.Addr)})
		settle()
		judge("join")
	})
	if res.Panic != nil {
		rep.Violate("panic", fmt.Sprintf("%v: %v", cell, res.Panic), cell)
	}
}
