package mc

// C16 — labels isolate logical clusters.
// (a) codec: every label length x payload menu on packets; on streams every
// label length under 1-byte-at-a-time delivery and every single split point,
// every pair of split points for selected lengths, EOF at every offset.
// (b) isolation: sender label x receiver label (equal, prefix, extension,
// disjoint, absent, 255 B) x SkipInboundLabelCheck x encryption x every
// genuine message family on both paths, twin oracle against a pristine
// receiver.

import (
	"bytes"
	"fmt"
	"io"
	"net"
	"strings"
	"testing"
	"time"

	ml "github.com/hashicorp/memberlist"
)

// fragConn returns its data in scripted fragments, then EOF (or blocks never:
// pure object, no bubble needed).
type fragConn struct {
	data   []byte
	cuts   []int // read boundaries (ascending offsets)
	pos    int
	closed bool
}

func (f *fragConn) Read(p []byte) (int, error) {
	if f.pos >= len(f.data) {
		return 0, io.EOF
	}
	end := len(f.data)
	for _, c := range f.cuts {
		if c > f.pos {
			end = c
			break
		}
	}
	if end > len(f.data) {
		end = len(f.data)
	}
	n := copy(p, f.data[f.pos:end])
	f.pos += n
	return n, nil
}
func (f *fragConn) Write(p []byte) (int, error)      { return len(p), nil }
func (f *fragConn) Close() error                     { f.closed = true; return nil }
func (f *fragConn) LocalAddr() net.Addr              { return simTCPAddr{"l"} }
func (f *fragConn) RemoteAddr() net.Addr             { return simTCPAddr{"r"} }
func (f *fragConn) SetDeadline(time.Time) error      { return nil }
func (f *fragConn) SetReadDeadline(time.Time) error  { return nil }
func (f *fragConn) SetWriteDeadline(time.Time) error { return nil }

type recConn struct {
	fragConn
	out []byte
}

func (r *recConn) Write(p []byte) (int, error) { r.out = append(r.out, p...); return len(p), nil }

func labelOfLen(n int) string {
	b := make([]byte, n)
	for i := range b {
		b[i] = byte('A' + i%26)
	}
	if n > 0 {
		b[0] = 244 // worst case: the label itself starts with the magic byte
	}
	return string(b)
}

func c16Codec(rep *Report) {
	payloads := [][]byte{nil, {7}, {244, 1, 'x'}, {0, 1, 2}, {1, 9, 9}, bytes.Repeat([]byte{0xab}, 1400)}
	for n := 0; n <= 256; n++ {
		if !mine(n) {
			continue
		}
		l := labelOfLen(n)
		for pi, pl := range payloads {
			rep.Evaluations++
			journal("C16 codec packet label=%d payload=%d", n, pi)
			got, err := ml.AddLabelHeaderToPacket(pl, l)
			if n > 255 {
				if err == nil {
					rep.Violate("codec-overlong-label-accepted", fmt.Sprintf("label of %d bytes", n), nil)
				}
				continue
			}
			if err != nil {
				rep.Violate("codec-add-error", fmt.Sprintf("label %d: %v", n, err), nil)
				continue
			}
			if n == 0 {
				if !bytes.Equal(got, pl) {
					rep.Violate("codec-empty-label-changed-packet", "", nil)
				}
				continue
			}
			back, lb, err := ml.RemoveLabelHeaderFromPacket(got)
			if err != nil || lb != l || !bytes.Equal(back, pl) {
				rep.Violate("codec-packet-roundtrip", fmt.Sprintf("label %d payload #%d: got label len %d, payload %d bytes, err %v", n, pi, len(lb), len(back), err), nil)
			} else {
				rep.Distinct++
			}
			// truncations inside the header must error, never panic
			for k := 1; k < 2+n && k < len(got); k++ {
				if p := catch(func() {
					_, _, err := ml.RemoveLabelHeaderFromPacket(got[:k])
					if err == nil {
						panic("no error")
					}
				}); p != nil {
					rep.Violate("codec-packet-truncated", fmt.Sprintf("label %d cut at %d: %v", n, k, p), nil)
				}
			}
		}
		if n == 0 || n > 255 {
			continue
		}
		// ---- streams
		for pi, pl := range [][]byte{nil, {9}, {244, 2, 'z', 'z', 1}, bytes.Repeat([]byte{0x5c}, 5000)} {
			w := &recConn{}
			if err := ml.AddLabelHeaderToStream(w, l); err != nil {
				rep.Violate("codec-stream-add", err.Error(), nil)
				continue
			}
			full := append(append([]byte(nil), w.out...), pl...)
			hdr := 2 + n
			check := func(cuts []int, desc string) {
				rep.Evaluations++
				fc := &fragConn{data: full, cuts: cuts}
				var c net.Conn
				var lb string
				var err error
				if p := catch(func() { c, lb, err = ml.RemoveLabelHeaderFromStream(fc) }); p != nil {
					rep.Violate("codec-stream-panic", fmt.Sprintf("label %d %s: %v", n, desc, p), nil)
					return
				}
				if err != nil || lb != l {
					rep.Violate("codec-stream-roundtrip", fmt.Sprintf("label %d payload #%d %s: label len %d err %v", n, pi, desc, len(lb), err), nil)
					return
				}
				rest, _ := io.ReadAll(c)
				if !bytes.Equal(rest, pl) {
					rep.Violate("codec-stream-payload", fmt.Sprintf("label %d payload #%d %s: %d bytes after the header, expected %d", n, pi, desc, len(rest), len(pl)), nil)
					return
				}
				rep.Distinct++
			}
			// one byte at a time
			var one []int
			for i := 1; i <= hdr+3 && i < len(full); i++ {
				one = append(one, i)
			}
			check(one, "1-byte-at-a-time")
			lim := hdr + 3
			if lim > len(full) {
				lim = len(full)
			}
			for a := 1; a <= lim; a++ {
				check([]int{a}, fmt.Sprintf("split at %d", a))
			}
			if n <= 2 || n == 7 || n == 255 || thorough() && (pi == 1 || n%16 == 0) {
				for a := 1; a <= lim; a++ {
					for bb := a + 1; bb <= lim; bb++ {
						check([]int{a, bb}, fmt.Sprintf("splits at %d,%d", a, bb))
					}
				}
			}
			// EOF at every offset of the header
			if pi == 0 {
				for k := 0; k <= hdr; k++ {
					rep.Evaluations++
					fc := &fragConn{data: full[:k]}
					var lb string
					var err error
					if p := catch(func() { _, lb, err = ml.RemoveLabelHeaderFromStream(fc) }); p != nil {
						rep.Violate("codec-stream-panic", fmt.Sprintf("label %d EOF at %d: %v", n, k, p), nil)
						continue
					}
					switch {
					case k == 0 && (err != nil || lb != ""):
						rep.Violate("codec-stream-eof0", fmt.Sprint(err), nil)
					case k > 0 && k < hdr && err == nil:
						rep.Violate("codec-stream-truncated-accepted", fmt.Sprintf("label %d EOF at %d accepted with label len %d", n, k, len(lb)), nil)
					case k == hdr && (err != nil || lb != l):
						rep.Violate("codec-stream-exact-header", fmt.Sprint(err), nil)
					}
				}
			}
		}
	}
	// ---- several streams in flight: every order of "strip the header" and
	// "read the rest" across 2 and 3 streams; each stream must yield its own
	// label and its own payload whatever happened on the others in between.
	if mine(301) {
		type strm struct {
			label string
			pl    []byte
		}
		mk := func(k int, label string, size int) strm {
			pl := make([]byte, size)
			for i := range pl {
				pl[i] = byte(k*61 + i*7 + 1)
			}
			return strm{label, pl}
		}
		labels := []string{"", "a", "label-7", labelOfLen(255)}
		sizes := []int{0, 5, 5000}
		var orders func(pending []int, stripped []bool, done []bool, cur []int, emit func([]int))
		orders = func(pending []int, stripped []bool, done []bool, cur []int, emit func([]int)) {
			all := true
			for i := range done {
				if !done[i] {
					all = false
					if !stripped[i] {
						stripped[i] = true
						orders(pending, stripped, done, append(cur, i*2), emit)
						stripped[i] = false
					} else {
						done[i] = true
						orders(pending, stripped, done, append(cur, i*2+1), emit)
						done[i] = false
					}
				}
			}
			if all {
				emit(append([]int(nil), cur...))
			}
		}
		run := func(ss []strm) {
			k := len(ss)
			orders(nil, make([]bool, k), make([]bool, k), nil, func(ord []int) {
				rep.Evaluations++
				conns := make([]net.Conn, k)
				for i, st := range ss {
					w := &recConn{}
					if err := ml.AddLabelHeaderToStream(w, st.label); err != nil {
						rep.Violate("codec-stream-add", err.Error(), nil)
						return
					}
					conns[i] = &fragConn{data: append(append([]byte(nil), w.out...), st.pl...)}
				}
				for _, op := range ord {
					i := op / 2
					if op%2 == 0 {
						c, lb, err := ml.RemoveLabelHeaderFromStream(conns[i])
						if err != nil || lb != ss[i].label {
							rep.Violate("codec-streams-interleaved-label", fmt.Sprintf("order %v stream %d: label %q err %v", ord, i, lb, err), nil)
							return
						}
						conns[i] = c
					} else {
						rest, _ := io.ReadAll(conns[i])
						if !bytes.Equal(rest, ss[i].pl) {
							rep.Violate("codec-streams-interleaved-payload", fmt.Sprintf("%d streams, order %v (2i = strip stream i, 2i+1 = read it): stream %d (label %d bytes) yielded %d bytes that are not its own %d-byte payload", k, ord, i, len(ss[i].label), len(rest), len(ss[i].pl)), nil)
							return
						}
					}
				}
				rep.Distinct++
			})
		}
		for _, la := range labels {
			for _, lb := range labels {
				for _, sa := range sizes {
					for _, sb := range sizes {
						run([]strm{mk(1, la, sa), mk(2, lb, sb)})
					}
				}
			}
		}
		for _, la := range labels[:3] {
			for _, lb := range labels[:3] {
				run([]strm{mk(1, la, 5), mk(2, lb, 5000), mk(3, la, 40)})
			}
		}
	}
	// documented error: present-but-empty label header
	if mine(300) {
		if _, _, err := ml.RemoveLabelHeaderFromPacket([]byte{244, 0, 1, 2}); err == nil {
			rep.Violate("codec-empty-header-accepted", "packet", nil)
		}
		if _, _, err := ml.RemoveLabelHeaderFromStream(&fragConn{data: []byte{244, 0, 1, 2}}); err == nil {
			rep.Violate("codec-empty-header-accepted", "stream", nil)
		}
		for _, pl := range [][]byte{nil, {1, 2, 3}} {
			back, lb, err := ml.RemoveLabelHeaderFromPacket(pl)
			if err != nil || lb != "" || !bytes.Equal(back, pl) {
				rep.Violate("codec-unlabelled-packet", fmt.Sprint(err), nil)
			}
		}
	}
}

type c16Iso struct {
	SLabel, RLabel string
	Skip, Enc      bool
	SSkip          bool `json:",omitempty"` // the SENDER delegates its inbound check to an outer layer; what it sends must carry its label all the same
}

func (c c16Iso) String() string {
	f := func(s string) string {
		if len(s) > 8 {
			return fmt.Sprintf("<%dB>", len(s))
		}
		return fmt.Sprintf("%q", s)
	}
	ss := ""
	if c.SSkip {
		ss = " sender-skips-inbound-check"
	}
	return fmt.Sprintf("sender=%s receiver=%s skip=%v enc=%v%s", f(c.SLabel), f(c.RLabel), c.Skip, c.Enc, ss)
}

func TestC16(t *testing.T) {
	rep := newReport()
	defer rep.Write(t)
	rep.Rule = "(codec) all label lengths 0..256 x 6 packet payloads incl. ones starting with the magic byte; streams: all lengths 1..255 x 4 payloads under 1-byte-at-a-time delivery, every single split point of the first 2+len+3 bytes, every pair of split points for lengths 1,2,7,255, EOF at every header offset; (isolation) 6x6 sender/receiver labels x SkipInboundLabelCheck x encryption x 15 genuine message families on the packet and stream paths against a pristine populated receiver"
	rep.Assumptions = []string{"the isolation oracle states a necessary condition for having an effect; compatible-looking pairs that still fail to talk are not violations", "mixed-label world: 4 nodes, two labels, <= 1 packet fault per history"}
	labels := []string{"", "a", "ab", "AB", "b", strings.Repeat("L", 255)} // AB/ab: equal only under case folding
	rep.Bounds = map[string]any{"labels": "none, a, ab, AB, b, 255 B", "codec_label_lengths": "0..256"}
	var mrp c16MixScn
	if loadReplay(&mrp) && len(mrp.Prefix) > 0 {
		x := runC16Mixed(t, mrp)
		t.Logf("replay: %q %s", x.Verdict, x.Msg)
		if x.Verdict != "" {
			rep.Violate("mixed-world:"+x.Verdict, x.Msg, mrp)
		}
		rep.Evaluations, rep.Distinct = 1, 2
		rep.Samples = append(rep.Samples, mrp)
		return
	}
	var rp c16Iso
	replay := loadReplay(&rp)
	if !replay {
		c16Codec(rep)
	}
	idx := 400
	var isos []c16Iso
	for _, sl := range labels {
		for _, rl := range labels {
			for _, skip := range []bool{false, true} {
				for _, enc := range []bool{false, true} {
					isos = append(isos, c16Iso{SLabel: sl, RLabel: rl, Skip: skip, Enc: enc})
				}
			}
		}
	}
	// a labelled sender that leaves its own inbound check to an outer layer still labels what it sends
	for _, rl := range []string{"", labels[1], labels[len(labels)-1]} {
		for _, skip := range []bool{false, true} {
			for _, enc := range []bool{false, true} {
				isos = append(isos, c16Iso{SLabel: labels[1], RLabel: rl, Skip: skip, Enc: enc, SSkip: true})
			}
		}
	}
	for _, iso := range isos {
		if rep.OverBudget() {
			break
		}
		sl, rl, skip, enc := iso.SLabel, iso.RLabel, iso.Skip, iso.Enc
		{
			{
				{
					{
						idx++
						if replay && iso != rp {
							continue
						}
						if !replay && !mine(idx) {
							continue
						}
						keys := ""
						if enc {
							keys = "K1"
						}
						res := inBubble(t, func(b *bubble) {
							installDetRand()
							seeds := captureSeeds(b, rcfg{Keys: keys, Label: sl, EncVsn: 1, SkipLabel: iso.SSkip})
							rc := rcfg{Keys: keys, Label: rl, EncVsn: 1, SkipLabel: skip}
							rcv := newReceiver(b, rc)
							eff0, _ := splitEffect(rcv.effect(nil))
							mayAct := sl == rl
							if skip {
								mayAct = sl == ""
							}
							for _, sd := range seeds {
								rep.Evaluations++
								journal("C16 %v seed=%s", iso, sd.Family)
								var reply []byte
								if sd.Stream {
									reply, _ = rcv.injectStream(sd.Buf, true, 0)
								} else {
									rcv.injectPacket(sd.Buf)
								}
								st, rp := splitEffect(rcv.effect(reply))
								acted := st != eff0 || rp != "none"
								if !mayAct {
									if acted {
										rep.Violate("foreign-label-traffic-acted-on:"+sd.Family, fmt.Sprintf("%v: %s (stream=%v) had an effect: state changed=%v reply=%s", iso, sd.Family, sd.Stream, st != eff0, rp), iso)
										rep.Outcome("VIOLATION")
									} else {
										rep.Outcome("foreign-dropped")
										rep.Distinct++
									}
								} else if acted {
									rep.Outcome("own-label-acted")
									rep.Distinct++
								} else {
									rep.Outcome("own-label-no-observable-effect")
								}
								if acted {
									rcv.retire()
									rcv = newReceiver(b, rc)
								}
							}
							rcv.retire()
						})
						if res.Panic != nil {
							rep.Violate("panic", fmt.Sprintf("%v: %v", iso, res.Panic), iso)
						}
					}
				}
			}
		}
	}
	if !replay {
		c16MixedAll(t, rep)
	}
	rep.Sample(map[string]any{"isolation_cell": c16Iso{SLabel: "ab", RLabel: "a", Enc: true}.String(), "codec": "label of 255 bytes starting with 0xf4, payload starting with 0xf4, stream split at 1 and 256"})
}

// ---------------------------------------------------------------- mixed-label world (Engine N)

type c16MixScn struct {
	Enc    bool     `json:"enc"`
	Prefix []int    `json:"choices"`
	Devs   []string `json:"deviations,omitempty"`
}

// Two logical clusters (labels "blue": n0,n1 and "green": n2,n3) share one
// simulated network. n0 is given a poisoned join list naming a green node, and
// a green node is told to join a blue one. No node may ever list, probe, ack or
// relay for a member of the other cluster.
func runC16Mixed(t *testing.T, s c16MixScn) (x nExec) {
	ch := &chooser{prefix: s.Prefix}
	res := inBubble(t, func(b *bubble) {
		label := func(i int) string {
			if i < 2 {
				return "blue"
			}
			return "green"
		}
		cfg := clusterCfg{N: 4, L0: time.Millisecond, LatAlt: []time.Duration{200 * time.Millisecond}, AllowDrop: true, AllowDup: true,
			FaultFrom: 0, FaultTo: time.Hour, Horizon: 5 * time.Second,
			Opts: func(i int, c *ml.Config) {
				c.Label = label(i)
				c.ProbeInterval = time.Second
				c.ProbeTimeout = 400 * time.Millisecond
				c.GossipInterval = 200 * time.Millisecond
				c.PushPullInterval = 2 * time.Second
				c.TCPTimeout = time.Second
				if s.Enc {
					kr, _ := ml.NewKeyring(nil, keyK1)
					c.Keyring = kr
				}
			}}
		c := newCluster(t, b, cfg, ch)
		for i := 0; i < 4; i++ {
			c.startTicks(i)
		}
		c.at(10*time.Millisecond, "join-blue", func() { go func() { _, _ = c.nodes[1].M.Join([]string{nodeAddr(0)}) }() })
		c.at(20*time.Millisecond, "join-green", func() { go func() { _, _ = c.nodes[3].M.Join([]string{nodeAddr(2)}) }() })
		c.at(500*time.Millisecond, "poisoned-join", func() { go func() { _, _ = c.nodes[0].M.Join([]string{nodeAddr(1), nodeAddr(2)}) }() })
		c.at(900*time.Millisecond, "cross-join", func() { go func() { _, _ = c.nodes[3].M.Join([]string{nodeAddr(1)}) }() })
		// a green node also sprays a genuine (green-labelled) alive about itself at a blue node
		c.at(1300*time.Millisecond, "cross-gossip", func() {
			a, _ := ml.VEncode(ml.VAliveMsg, &ml.VAlive{Incarnation: 9, Node: "n2", Addr: nodeIP(2), Port: uint16(nodePort(2)), Vsn: defaultVsn}, false)
			_ = c.nodes[2].M.VRawSendMsgPacket(nodeAddr(0), "n0", nil, a)
			p, _ := ml.VEncode(ml.VPingMsg, &ml.VPing{SeqNo: 99, Node: "n0", SourceAddr: nodeIP(2), SourcePort: uint16(nodePort(2)), SourceNode: "n2"}, false)
			_ = c.nodes[2].M.VRawSendMsgPacket(nodeAddr(0), "n0", nil, p)
			ind, _ := ml.VEncode(ml.VIndirectPingMsg, &ml.VIndirectPingReq{SeqNo: 98, Target: nodeIP(1), Port: uint16(nodePort(1)), Node: "n1", Nack: true, SourceAddr: nodeIP(2), SourcePort: uint16(nodePort(2)), SourceNode: "n2"}, false)
			_ = c.nodes[2].M.VRawSendMsgPacket(nodeAddr(0), "n0", nil, ind)
		})
		scripted := map[string]bool{} // the harness's own cross-cluster sends
		c.StepCheck = func(c *cluster) string {
			for i, n := range c.nodes {
				for _, m := range n.M.Members() {
					var j int
					fmt.Sscanf(m.Name, "n%d", &j)
					if label(i) != label(j) {
						return fmt.Sprintf("%s (%s) lists %s (%s)", n.Name, label(i), m.Name, label(j))
					}
				}
				for _, r := range n.M.VSnapshot().Recs {
					var j int
					fmt.Sscanf(r.Name, "n%d", &j)
					if label(i) != label(j) {
						return fmt.Sprintf("%s holds a record of %s from the other cluster", n.Name, r.Name)
					}
				}
			}
			return ""
		}
		c.run()
		_ = scripted
		x.Digest = c.digest()
		if c.stepFail != "" {
			x.Verdict, x.Msg = "cross-cluster-membership", c.stepFail
		}
		// wire: apart from the scripted cross-cluster sends of n2/n3 and the poisoned join of n0, nobody talks across
		for _, w := range c.Wire {
			var fi, ti int
			fmt.Sscanf(w.From, "n%d", &fi)
			if to := c.byAdr[w.To]; to != nil {
				ti = to.idx
			} else {
				continue
			}
			if label(fi) == label(ti) {
				continue
			}
			if fi == 2 && w.At >= 1300*time.Millisecond && w.At < 1301*time.Millisecond {
				continue // the scripted spray
			}
			x.Verdict, x.Msg = "cross-cluster-packet", fmt.Sprintf("%v %s->%s %v: a node answered, probed or relayed for the other cluster", w.At, w.From, w.To, w.Leaves)
		}
		x.Extra = map[string]any{"packets": len(c.Wire)}
	})
	x.Choices = make([]int, len(ch.pts))
	for i, p := range ch.pts {
		x.Choices[i] = p.Pick
	}
	x.Pts = ch.pts
	if res.Panic != nil {
		x.Verdict, x.Msg = "panic", fmt.Sprint(res.Panic)
	}
	if ch.div != "" && x.Verdict == "" {
		x.Verdict, x.Msg = "replay-divergence", ch.div
	}
	return
}

func c16MixedAll(t *testing.T, rep *Report) {
	execs := 0
	for ei, enc := range []bool{false, true} {
		s := c16MixScn{Enc: enc}
		sidx := 900000 + ei*7919
		exploreN(rep, 1, &sidx, func(prefix []int) nExec {
			s2 := s
			s2.Prefix = prefix
			journal("C16 mixed %+v", s2)
			return runC16Mixed(t, s2)
		}, func(x nExec) {
			execs++
			rep.Evaluations++
			if x.Verdict != "" {
				s2 := s
				s2.Prefix = x.Choices
				s2.Devs = devStr(x.Pts)
				rep.Violate("mixed-world:"+x.Verdict, fmt.Sprintf("enc=%v: %s; deviations %v", enc, x.Msg, devStr(x.Pts)), s2)
				rep.Outcome("VIOLATION")
			} else {
				rep.Outcome("mixed-world-isolated")
				rep.Distinct++
			}
		})
	}
	rep.Extra["mixed_world_executions"] = execs
}
