package mc

// C16 — labels isolate logical clusters.
// (a) codec: every label length x payload menu on packets; on streams every
// label length under 1-byte-at-a-time delivery and every single split point,
// every pair of split points for selected lengths, EOF at every offset.
// (b) isolation: sender label x receiver label (equal, prefix, extension,
// disjoint, absent, 255 B) x SkipInboundLabelCheck x encryption x every
// genuine message family on both paths, twin oracle against a pristine
// receiver.

import (
	"bytes"
	"fmt"
	"io"
	"net"
	"strings"
	"testing"
	"time"

	ml "github.com/hashicorp/memberlist"
)

// fragConn returns its data in scripted fragments, then EOF (or blocks never:
// pure object, no bubble needed).
type fragConn struct {
	data   []byte
	cuts   []int // read boundaries (ascending offsets)
	pos    int
	closed bool
}

func (f *fragConn) Read(p []byte) (int, error) {
	if f.pos >= len(f.data) {
		return 0, io.EOF
	}
	end := len(f.data)
	for _, c := range f.cuts {
		if c > f.pos {
			end = c
			break
		}
	}
	if end > len(f.data) {
		end = len(f.data)
	}
	n := copy(p, f.data[f.pos:end])
	f.pos += n
	return n, nil
}
func (f *fragConn) Write(p []byte) (int, error)      { return len(p), nil }
func (f *fragConn) Close() error                     { f.closed = true; return nil }
func (f *fragConn) LocalAddr() net.Addr              { return simTCPAddr{"l"} }
func (f *fragConn) RemoteAddr() net.Addr             { return simTCPAddr{"r"} }
func (f *fragConn) SetDeadline(time.Time) error      { return nil }
func (f *fragConn) SetReadDeadline(time.Time) error  { return nil }
func (f *fragConn) SetWriteDeadline(time.Time) error { return nil }

type recConn struct {
	fragConn
	out []byte
}

func (r *recConn) Write(p []byte) (int, error) { r.out = append(r.out, p...); return len(p), nil }

func labelOfLen(n int) string {
	b := make([]byte, n)
	for i := range b {
		b[i] = byte('A' + i%26)
	}
	if n > 0 {
		b[0] = 244 // worst case: the label itself starts with the magic byte
	}
	return string(b)
}

func c16Codec(rep *Report) {
	payloads := [][]byte{nil, {7}, {244, 1, 'x'}, {0, 1, 2}, {1, 9, 9}, bytes.Repeat([]byte{0xab}, 1400)}
	for n := 0; n <= 256; n++ {
		if !mine(n) {
			continue
		}
		l := labelOfLen(n)
		for pi, pl := range payloads {
			rep.Evaluations++
			journal("C16 codec packet label=%d payload=%d", n, pi)
			got, err := ml.AddLabelHeaderToPacket(pl, l)
			if n > 255 {
				if err == nil {
					rep.Violate("codec-overlong-label-accepted", fmt.Sprintf("label of %d bytes", n), nil)
				}
				continue
			}
			if err != nil {
				rep.Violate("codec-add-error", fmt.Sprintf("label %d: %v", n, err), nil)
				continue
			}
			if n == 0 {
				if !bytes.Equal(got, pl) {
					rep.Violate("codec-empty-label-changed-packet", "", nil)
				}
				continue
			}
			back, lb, err := ml.RemoveLabelHeaderFromPacket(got)
			if err != nil || lb != l || !bytes.Equal(back, pl) {
				rep.Violate("codec-packet-roundtrip", fmt.Sprintf("label %d payload #%d: got label len %d, payload %d bytes, err %v", n, pi, len(lb), len(back), err), nil)
			} else {
				rep.Distinct++
			}
			// truncations inside the header must error, never panic
			for k := 1; k < 2+n && k < len(got); k++ {
				if p := catch(func() {
					_, _, err := ml.RemoveLabelHeaderFromPacket(got[:k])
					if err == nil {
						panic("no error")
					}
				}); p != nil {
					rep.Violate("codec-packet-truncated", fmt.Sprintf("label %d cut at %d: %v", n, k, p), nil)
				}
			}
		}
		if n == 0 || n > 255 {
			continue
		}
		// ---- streams
		for pi, pl := range [][]byte{nil, {9}, {244, 2, 'z', 'z', 1}, bytes.Repeat([]byte{0x5c}, 5000)} {
			w := &recConn{}
			if err := ml.AddLabelHeaderToStream(w, l); err != nil {
				rep.Violate("codec-stream-add", err.Error(), nil)
				continue
			}
			full := append(append([]byte(nil), w.out...), pl...)
			hdr := 2 + n
			check := func(cuts []int, desc string) {
				rep.Evaluations++
				fc := &fragConn{data: full, cuts: cuts}
				var c net.Conn
				var lb string
				var err error
				if p := catch(func() { c, lb, err = ml.RemoveLabelHeaderFromStream(fc) }); p != nil {
					rep.Violate("codec-stream-panic", fmt.Sprintf("label %d %s: %v", n, desc, p), nil)
					return
				}
				if err != nil || lb != l {
					rep.Violate("codec-stream-roundtrip", fmt.Sprintf("label %d payload #%d %s: label len %d err %v", n, pi, desc, len(lb), err), nil)
					return
				}
				rest, _ := io.ReadAll(c)
				if !bytes.Equal(rest, pl) {
					rep.Violate("codec-stream-payload", fmt.Sprintf("label %d payload #%d %s: %d bytes after the header, expected %d", n, pi, desc, len(rest), len(pl)), nil)
					return
				}
				rep.Distinct++
			}
			// one byte at a time
			var one []int
			for i := 1; i <= hdr+3 && i < len(full); i++ {
				one = append(one, i)
			}
			check(one, "1-byte-at-a-time")
			lim := hdr + 3
			if lim > len(full) {
				lim = len(full)
			}
			for a := 1; a <= lim; a++ {
				check([]int{a}, fmt.Sprintf("split at %d", a))
			}
			if n <= 2 || n == 7 || n == 255 || thorough() && n%16 == 0 {
				for a := 1; a <= lim; a++ {
					for bb := a + 1; bb <= lim; bb++ {
						check([]int{a, bb}, fmt.Sprintf("splits at %d,%d", a, bb))
					}
				}
			}
			// EOF at every offset of the header
			if pi == 0 {
				for k := 0; k <= hdr; k++ {
					rep.Evaluations++
					fc := &fragConn{data: full[:k]}
					var lb string
					var err error
					if p := catch(func() { _, lb, err = ml.RemoveLabelHeaderFromStream(fc) }); p != nil {
						rep.Violate("codec-stream-panic", fmt.Sprintf("label %d EOF at %d: %v", n, k, p), nil)
						continue
					}
					switch {
					case k == 0 && (err != nil || lb != ""):
						rep.Violate("codec-stream-eof0", fmt.Sprint(err), nil)
					case k > 0 && k < hdr && err == nil:
						rep.Violate("codec-stream-truncated-accepted", fmt.Sprintf("label %d EOF at %d accepted with label len %d", n, k, len(lb)), nil)
					case k == hdr && (err != nil || lb != l):
						rep.Violate("codec-stream-exact-header", fmt.Sprint(err), nil)
					}
				}
			}
		}
	}
	// documented error: present-but-empty label header
	if mine(300) {
		if _, _, err := ml.RemoveLabelHeaderFromPacket([]byte{244, 0, 1, 2}); err == nil {
			rep.Violate("codec-empty-header-accepted", "packet", nil)
		}
		if _, _, err := ml.RemoveLabelHeaderFromStream(&fragConn{data: []byte{244, 0, 1, 2}}); err == nil {
			rep.Violate("codec-empty-header-accepted", "stream", nil)
		}
		for _, pl := range [][]byte{nil, {1, 2, 3}} {
			back, lb, err := ml.RemoveLabelHeaderFromPacket(pl)
			if err != nil || lb != "" || !bytes.Equal(back, pl) {
				rep.Violate("codec-unlabelled-packet", fmt.Sprint(err), nil)
			}
		}
	}
}

type c16Iso struct {
	SLabel, RLabel string
	Skip, Enc      bool
}

func (c c16Iso) String() string {
	f := func(s string) string {
		if len(s) > 8 {
			return fmt.Sprintf("<%dB>", len(s))
		}
		return fmt.Sprintf("%q", s)
	}
	return fmt.Sprintf("sender=%s receiver=%s skip=%v enc=%v", f(c.SLabel), f(c.RLabel), c.Skip, c.Enc)
}

func TestC16(t *testing.T) {
	rep := newReport()
	defer rep.Write(t)
	rep.Rule = "(codec) all label lengths 0..256 x 6 packet payloads incl. ones starting with the magic byte; streams: all lengths 1..255 x 4 payloads under 1-byte-at-a-time delivery, every single split point of the first 2+len+3 bytes, every pair of split points for lengths 1,2,7,255, EOF at every header offset; (isolation) 5x5 sender/receiver labels x SkipInboundLabelCheck x encryption x 15 genuine message families on the packet and stream paths against a pristine populated receiver"
	rep.Assumptions = []string{"the isolation oracle states a necessary condition for having an effect; compatible-looking pairs that still fail to talk are not violations", "the mixed-label multi-node world (Engine N) is not part of this check"}
	labels := []string{"", "a", "ab", "b", strings.Repeat("L", 255)}
	rep.Bounds = map[string]any{"labels": "none, a, ab, b, 255 B", "codec_label_lengths": "0..256"}
	var rp c16Iso
	replay := loadReplay(&rp)
	if !replay {
		c16Codec(rep)
	}
	idx := 400
	for _, sl := range labels {
		for _, rl := range labels {
			for _, skip := range []bool{false, true} {
				for _, enc := range []bool{false, true} {
					iso := c16Iso{sl, rl, skip, enc}
					idx++
					if replay && iso != rp {
						continue
					}
					if !replay && !mine(idx) {
						continue
					}
					keys := ""
					if enc {
						keys = "K1"
					}
					res := inBubble(t, func(b *bubble) {
						installDetRand()
						seeds := captureSeeds(b, rcfg{Keys: keys, Label: sl, EncVsn: 1})
						rc := rcfg{Keys: keys, Label: rl, EncVsn: 1, SkipLabel: skip}
						rcv := newReceiver(b, rc)
						eff0, _ := splitEffect(rcv.effect(nil))
						mayAct := sl == rl
						if skip {
							mayAct = sl == ""
						}
						for _, sd := range seeds {
							rep.Evaluations++
							journal("C16 %v seed=%s", iso, sd.Family)
							var reply []byte
							if sd.Stream {
								reply, _ = rcv.injectStream(sd.Buf, true, 0)
							} else {
								rcv.injectPacket(sd.Buf)
							}
							st, rp := splitEffect(rcv.effect(reply))
							acted := st != eff0 || rp != "none"
							if !mayAct {
								if acted {
									rep.Violate("foreign-label-traffic-acted-on:"+sd.Family, fmt.Sprintf("%v: %s (stream=%v) had an effect: state changed=%v reply=%s", iso, sd.Family, sd.Stream, st != eff0, rp), iso)
									rep.Outcome("VIOLATION")
								} else {
									rep.Outcome("foreign-dropped")
									rep.Distinct++
								}
							} else if acted {
								rep.Outcome("own-label-acted")
								rep.Distinct++
							} else {
								rep.Outcome("own-label-no-observable-effect")
							}
							if acted {
								rcv.retire()
								rcv = newReceiver(b, rc)
							}
						}
						rcv.retire()
					})
					if res.Panic != nil {
						rep.Violate("panic", fmt.Sprintf("%v: %v", iso, res.Panic), iso)
					}
				}
			}
		}
	}
	rep.Sample(map[string]any{"isolation_cell": c16Iso{"ab", "a", false, true}.String(), "codec": "label of 255 bytes starting with 0xf4, payload starting with 0xf4, stream split at 1 and 256"})
}
