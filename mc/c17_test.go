package mc

// C17 — keyring integrity and zero-downtime rotation.
// (S) the real Keyring in lock-step with a reference slice: BFS to a fixpoint
// over ordered key lists plus every operation sequence to a depth (aliasing of
// returned lists depends on capacity history), holding a deep copy of every
// list ever returned. (Rotation) every reachable cluster state of the
// install/use/remove procedure for 2-3 real nodes: every ordered pair
// exchanges a packet and a stream through the real pipelines. (Race) the same
// bodies free-running under -race.

import (
	"bytes"
	"fmt"
	"net"
	"strings"
	"sync"
	"sync/atomic"
	"testing"
	"time"

	ml "github.com/hashicorp/memberlist"
)

var c17Keys = map[string][]byte{
	"A": bytes.Repeat([]byte{0xA1}, 16),
	"B": bytes.Repeat([]byte{0xB2}, 16),
	"C": bytes.Repeat([]byte{0xC3}, 24),
	"D": bytes.Repeat([]byte{0xD4}, 32),
	"e": {},                             // invalid: empty
	"f": bytes.Repeat([]byte{0xF5}, 15), // invalid
	"g": bytes.Repeat([]byte{0x66}, 33), // invalid
}

func keyName(k []byte) string {
	for n, v := range c17Keys {
		if bytes.Equal(k, v) && (len(v) > 0 || len(k) == 0) {
			return n
		}
	}
	return fmt.Sprintf("?%x", k)
}

func validKey(k []byte) bool { return len(k) == 16 || len(k) == 24 || len(k) == 32 }

type kop struct {
	Op  string // add use remove keys primary
	Key string
}

func (o kop) String() string {
	if o.Key == "" {
		return o.Op
	}
	return o.Op + "(" + o.Key + ")"
}

// reference keyring: ordered list of key names, first = primary
type refRing []string

func (r refRing) has(k string) bool {
	for _, x := range r {
		if x == k {
			return true
		}
	}
	return false
}
func (r refRing) add(k string) (refRing, bool) {
	if !validKey(c17Keys[k]) {
		return r, false
	}
	if r.has(k) {
		return r, true
	}
	return append(append(refRing(nil), r...), k), true
}
func (r refRing) use(k string) (refRing, bool) {
	if !r.has(k) {
		return r, false
	}
	out := refRing{k}
	for _, x := range r {
		if x != k {
			out = append(out, x)
		}
	}
	return out, true
}
func (r refRing) remove(k string) (refRing, bool) {
	if len(r) > 0 && r[0] == k {
		return r, false
	}
	out := refRing{}
	for _, x := range r {
		if x != k {
			out = append(out, x)
		}
	}
	return out, true
}

type heldList struct {
	list [][]byte
	copy [][]byte
	at   int
}

type c17Exec struct {
	k    *ml.Keyring
	ref  refRing
	held []heldList
}

func ringNames(keys [][]byte) []string {
	out := make([]string, len(keys))
	for i, k := range keys {
		out[i] = keyName(k)
	}
	return out
}

func (e *c17Exec) hold(i int) {
	l := e.k.GetKeys()
	cp := make([][]byte, len(l))
	for j := range l {
		cp[j] = append([]byte(nil), l[j]...)
	}
	e.held = append(e.held, heldList{l, cp, i})
}

func (e *c17Exec) step(i int, o kop) (sig, msg string) {
	key := c17Keys[o.Key]
	var err error
	var ok bool
	p := catch(func() {
		switch o.Op {
		case "add":
			err = e.k.AddKey(key)
			e.ref, ok = e.ref.add(o.Key)
		case "use":
			err = e.k.UseKey(key)
			e.ref, ok = e.ref.use(o.Key)
		case "remove":
			err = e.k.RemoveKey(key)
			e.ref, ok = e.ref.remove(o.Key)
		case "keys":
			ok = true
			e.hold(i)
		case "primary":
			ok = true
			pk := e.k.GetPrimaryKey()
			if len(e.ref) == 0 {
				if pk != nil {
					panic("primary key on empty ring")
				}
			} else if keyName(pk) != e.ref[0] {
				panic(fmt.Sprintf("GetPrimaryKey=%s reference %s", keyName(pk), e.ref[0]))
			}
		}
	})
	if p != nil {
		return "panic:" + o.Op, fmt.Sprintf("%v: %v", o, p)
	}
	if (err == nil) != ok {
		return "result:" + o.Op, fmt.Sprintf("%v returned err=%v, reference ok=%v", o, err, ok)
	}
	// invariants + reference equality
	cur := e.k.GetKeys()
	names := ringNames(cur)
	if strings.Join(names, ",") != strings.Join(e.ref, ",") {
		return "ring-content", fmt.Sprintf("after %v: ring %v reference %v", o, names, []string(e.ref))
	}
	seen := map[string]bool{}
	for _, k := range cur {
		if !validKey(k) {
			return "invalid-key-installed", fmt.Sprintf("after %v: %d-byte key installed", o, len(k))
		}
		if seen[string(k)] {
			return "duplicate-key", fmt.Sprintf("after %v: duplicate key", o)
		}
		seen[string(k)] = true
	}
	if pk := e.k.GetPrimaryKey(); len(cur) > 0 && !bytes.Equal(pk, cur[0]) {
		return "primary-not-first", fmt.Sprintf("after %v", o)
	}
	// every previously returned list still equals its copy
	for _, h := range e.held {
		if len(h.list) != len(h.copy) {
			return "returned-list-altered", "length changed"
		}
		for j := range h.list {
			if !bytes.Equal(h.list[j], h.copy[j]) {
				return "returned-list-altered", fmt.Sprintf("after %v: list returned at step %d was %v, now reads %v", o, h.at, ringNames(h.copy), ringNames(h.list))
			}
		}
	}
	return "", ""
}

type c17Start struct {
	Keys    []string
	Primary string
}

type c17Replay struct {
	Start c17Start `json:"start"`
	Ops   []kop    `json:"ops"`
}

func c17New(s c17Start) (*c17Exec, string, string) {
	var keys [][]byte
	for _, k := range s.Keys {
		keys = append(keys, c17Keys[k])
	}
	var prim []byte
	if s.Primary != "" {
		prim = c17Keys[s.Primary]
	}
	// reference for NewKeyring
	var ref refRing
	ok := true
	if len(keys) > 0 || len(prim) > 0 {
		if len(prim) == 0 {
			ok = false
		} else {
			var o2 bool
			ref, o2 = ref.add(s.Primary)
			ok = ok && o2
			for _, k := range s.Keys {
				if !ok {
					break
				}
				ref, o2 = ref.add(k)
				ok = ok && o2
			}
		}
	}
	var kr *ml.Keyring
	var err error
	if p := catch(func() { kr, err = ml.NewKeyring(keys, prim) }); p != nil {
		return nil, "panic:new", fmt.Sprintf("NewKeyring(%v,%q): %v", s.Keys, s.Primary, p)
	}
	if (err == nil) != ok {
		return nil, "result:new", fmt.Sprintf("NewKeyring(%v,%q) err=%v reference ok=%v", s.Keys, s.Primary, err, ok)
	}
	if err != nil {
		return nil, "", ""
	}
	e := &c17Exec{k: kr, ref: ref}
	if got := strings.Join(ringNames(kr.GetKeys()), ","); got != strings.Join(ref, ",") {
		return nil, "ring-content", fmt.Sprintf("NewKeyring(%v,%q) ring %s reference %v", s.Keys, s.Primary, got, []string(ref))
	}
	return e, "", ""
}

func c17Run(s c17Start, ops []kop) (*c17Exec, int, string, string) {
	e, sig, msg := c17New(s)
	if sig != "" {
		return nil, 0, sig, msg
	}
	if e == nil {
		return nil, -1, "", ""
	}
	for i, o := range ops {
		if sig, msg := e.step(i, o); sig != "" {
			return e, i, sig, msg
		}
	}
	return e, -1, "", ""
}

func kopsStr(ops []kop) []string {
	out := make([]string, len(ops))
	for i, o := range ops {
		out[i] = o.String()
	}
	return out
}

func TestC17(t *testing.T) {
	rep := newReport()
	defer rep.Write(t)
	if replayT(t, rep, c17TScenarios()) {
		return
	}
	var rp c17Replay
	if loadReplay(&rp) {
		_, i, sig, msg := c17Run(rp.Start, rp.Ops)
		t.Logf("replay: failing op %d sig=%q %s", i, sig, msg)
		if sig != "" {
			rep.Violate(sig, msg, rp)
		}
		rep.States, rep.Transitions = 1, len(rp.Ops)+1
		rep.Samples = append(rep.Samples, rp)
		return
	}
	depth := 5
	if thorough() {
		depth = 6
	}
	var alpha []kop
	for _, k := range []string{"A", "B", "C", "D", "e", "f", "g"} {
		alpha = append(alpha, kop{"add", k}, kop{"use", k}, kop{"remove", k})
	}
	alpha = append(alpha, kop{"keys", ""}, kop{"primary", ""})
	rep.Bounds = map[string]any{"depth": depth, "alphabet": len(alpha), "keys": "4 valid (16,16,24,32 B) + 3 invalid (0,15,33 B)", "rotation_nodes": []int{2, 3}}
	rep.Rule = "(S) BFS over ordered key lists to fixpoint + all op sequences to the depth from the empty and one-key ring; (rotation) every reachable cluster state of the install/use/remove procedure, every ordered pair exchanging a packet and a stream; distinct = distinct ring states + distinct cluster key states"
	rep.Assumptions = []string{"AES-GCM nonces are random and excluded from comparison"}

	// ---- constructor lattice
	names := []string{"A", "B", "e", "f"}
	var starts []c17Start
	lists := [][]string{nil}
	for _, a := range names {
		lists = append(lists, []string{a})
		for _, b := range names {
			lists = append(lists, []string{a, b})
		}
	}
	for _, l := range lists {
		for _, p := range []string{"", "A", "B", "C", "e", "g"} {
			starts = append(starts, c17Start{l, p})
		}
	}
	idx := 0
	for _, s := range starts {
		idx++
		if !mine(idx) {
			continue
		}
		journal("C17 new %v", s)
		_, _, sig, msg := c17Run(s, []kop{{"keys", ""}, {"primary", ""}})
		rep.Transitions++
		if sig != "" {
			rep.Violate(sig, msg, c17Replay{s, nil})
		}
	}

	// ---- BFS over ring states to a fixpoint (only shard 0)
	if i, _ := shard(); i == 0 {
		seen := map[string][]kop{"": nil}
		frontier := [][]kop{nil}
		for len(frontier) > 0 {
			var next [][]kop
			for _, path := range frontier {
				for _, o := range alpha {
					ops := append(append([]kop(nil), path...), o)
					journal("C17 bfs %v", kopsStr(ops))
					e, i, sig, msg := c17Run(c17Start{}, ops)
					rep.Transitions++
					if i >= 0 {
						rep.Violate(sig, fmt.Sprintf("ops=%v: %s", kopsStr(ops), msg), c17Replay{c17Start{}, ops})
						continue
					}
					k := strings.Join(e.ref, ",")
					if _, ok := seen[k]; !ok {
						seen[k] = ops
						next = append(next, ops)
					}
				}
			}
			frontier = next
		}
		rep.States += len(seen)
		rep.Extra["ring_states"] = len(seen)
		for k, p := range seen {
			if len(p) >= 3 {
				rep.Sample(map[string]any{"ring": k, "path": kopsStr(p)})
				break
			}
		}
	}

	// ---- all sequences to the depth (aliasing depends on history)
	seqs := 0
	caseIdx := 0
	for _, st := range []c17Start{{}, {nil, "A"}, {[]string{"B", "C"}, "A"}} {
		var dfs func(prefix []kop)
		dfs = func(prefix []kop) {
			for _, o := range alpha {
				// invalid keys never change state; keep them out of deep sequences
				if len(prefix) >= 2 && (o.Key == "e" || o.Key == "f" || o.Key == "g") {
					continue
				}
				ops := append(append([]kop(nil), prefix...), o)
				if len(ops) == 2 {
					caseIdx++
					if !mine(caseIdx) {
						continue
					}
				}
				if len(ops) >= 2 {
					journal("C17 seq %v %v", st, kopsStr(ops))
					_, i, sig, msg := c17Run(st, ops)
					rep.Transitions++
					seqs++
					if i >= 0 {
						rep.Violate(sig, fmt.Sprintf("start=%v ops=%v: %s", st, kopsStr(ops), msg), c17Replay{st, ops})
						continue
					}
					if seqs%40000 == 1 {
						rep.Sample(map[string]any{"start": st, "ops": kopsStr(ops)})
					}
				}
				if len(ops) < depth {
					dfs(ops)
				}
			}
		}
		dfs(nil)
	}
	rep.Traces = seqs
	rep.Extra["sequences"] = seqs

	tb17 := 2
	if thorough() {
		tb17 = 3
	}
	runTSet(t, rep, c17TScenarios(), tb17, 9000)
	// ---- rotation
	c17Rotation(t, rep)
	rep.Distinct = rep.States
	rep.Evaluations = rep.Transitions
	rep.Outcomes["conforming"] = rep.Transitions - rep.NumViolations()
}

// ---------------------------------------------------------------- rotation

// Each node goes through phases 0 (only old) 1 (old+new installed) 2 (new is
// primary) 3 (old removed). The documented procedure finishes a phase
// everywhere before the next phase starts anywhere, so reachable cluster
// states are those where all phases lie in {p, p+1} for some p.
func c17Rotation(t *testing.T, rep *Report) {
	oldK, newK := c17Keys["A"], c17Keys["D"]
	caseIdx := 0
	clusterStates := 0
	for _, n := range []int{2, 3} {
		var states [][]int
		for p := 0; p < 3; p++ {
			for mask := 0; mask < 1<<n; mask++ {
				ph := make([]int, n)
				for i := 0; i < n; i++ {
					ph[i] = p
					if mask&(1<<i) != 0 {
						ph[i] = p + 1
					}
				}
				states = append(states, ph)
			}
		}
		for _, ph := range states {
			for _, label := range []string{"", "lbl", "+secretkey", "+emptyring+secretkey"} {
				caseIdx++
				if !mine(caseIdx) {
					continue
				}
				clusterStates++
				journal("C17 rotation n=%d phases=%v label=%q", n, ph, label)
				ph := ph
				res := inBubble(t, func(b *bubble) {
					nodes := make([]*node, n)
					for i := 0; i < n; i++ {
						kr, _ := ml.NewKeyring(nil, oldK)
						if label == "+emptyring+secretkey" && i == 0 {
							// the application creates its ring empty and names the key in the config
							kr, _ = ml.NewKeyring(nil, nil)
						}
						nd, err := newNode(fmt.Sprintf("n%d", i), ip4(byte(i+1)), func(c *ml.Config) {
							c.Keyring = kr
							if label == "+emptyring+secretkey" {
								if i == 0 {
									c.SecretKey = oldK
								}
							} else if label == "+secretkey" {
								// one application hands over its ring AND names the current key (the others
								// hand over a ring only); each keeps rotating through the ring object it created
								if i == 0 {
									c.SecretKey = oldK
								}
							} else {
								c.Label = label
							}
						})
						if err != nil {
							panic(err)
						}
						nodes[i] = b.track(nd)
						if pk := kr.GetPrimaryKey(); !bytes.Equal(pk, oldK) {
							rep.Violate("rotation-ring-detached", fmt.Sprintf("n=%d label=%q node %d: after Create the application's ring has primary %x, the node was told to use %x", n, label, i, pk, oldK), map[string]any{"n": n, "phases": ph, "label": label})
						}
						// perform the phases through the real API, in order
						if ph[i] >= 1 {
							must(kr.AddKey(newK))
						}
						if ph[i] >= 2 {
							must(kr.UseKey(newK))
						}
						if ph[i] >= 3 {
							must(kr.RemoveKey(oldK))
						}
					}
					for i := 0; i < n; i++ {
						for j := 0; j < n; j++ {
							if i == j {
								continue
							}
							rep.Transitions += 2
							payload := []byte(fmt.Sprintf("rot-%d-%d", i, j))
							if (i+j)%2 == 1 {
								// a message of more than 1 KiB (larger buffers may take another decryption path)
								payload = append(payload, payloadOf(1200-len(payload), false)...)
							}
							// packet path
							before := nodes[j].D.NumMsgs()
							nodes[i].T.TakeSent()
							must(nodes[i].M.SendBestEffort(&ml.Node{Name: nodes[j].Name, Addr: ip4(byte(j + 1)), Port: 7946}, payload))
							for _, p := range nodes[i].T.TakeSent() {
								nodes[j].M.VIngestPacket(p.Buf, nodes[i].Addr, time.Now())
							}
							settle()
							got := nodes[j].D.Msgs
							if len(got) != before+1 || !bytes.Equal(got[len(got)-1], payload) {
								rep.Violate("rotation-packet-lost", fmt.Sprintf("n=%d phases=%v label=%q: packet %d->%d not delivered", n, ph, label, i, j), map[string]any{"n": n, "phases": ph, "label": label, "from": i, "to": j})
							}
							// stream path
							before = nodes[j].D.NumMsgs()
							nodes[i].T.OnDial = func(a ml.Address, d time.Duration) (net.Conn, error) {
								c1, c2 := simPipe(nodes[i].Addr, nodes[j].Addr)
								nodes[j].T.Accept(c2)
								return c1, nil
							}
							payload2 := append([]byte("s-"), payload...)
							if (i+j)%2 == 1 {
								payload2 = append(payload2, payloadOf(2800, false)...)
							}
							err := nodes[i].M.SendReliable(&ml.Node{Name: nodes[j].Name, Addr: ip4(byte(j + 1)), Port: 7946}, payload2)
							settle()
							got = nodes[j].D.Msgs
							if err != nil || len(got) != before+1 || !bytes.Equal(got[len(got)-1], payload2) {
								rep.Violate("rotation-stream-lost", fmt.Sprintf("n=%d phases=%v label=%q: stream %d->%d not delivered (err=%v)", n, ph, label, i, j, err), map[string]any{"n": n, "phases": ph, "label": label, "from": i, "to": j})
							}
						}
					}
				})
				if res.Panic != nil {
					rep.Violate("rotation-panic", fmt.Sprintf("n=%d phases=%v: %v", n, ph, res.Panic), map[string]any{"n": n, "phases": ph})
				}
				if clusterStates == 1 {
					rep.Sample(map[string]any{"rotation_nodes": n, "phases": ph, "label": label})
				}
			}
		}
	}
	rep.States += clusterStates
	rep.Extra["rotation_cluster_states"] = clusterStates
}

func must(err error) {
	if err != nil {
		panic(err)
	}
}

// ---------------------------------------------------------------- race pass

// TestC17Race runs keyring mutation concurrently with packet decrypt/encrypt,
// free-running, under the race detector (sampling; reported as such).
func TestC17Race(t *testing.T) {
	rep := newReport()
	defer rep.Write(t)
	rep.Exhaustive = false
	rep.Rule = "free-running -race pass (sampling): RemoveKey/UseKey/AddKey on one goroutine, encrypt/decrypt of traffic sealed under a key installed throughout on others"
	keys := [][]byte{c17Keys["A"], c17Keys["B"], c17Keys["C"], c17Keys["D"]}
	runs := 300
	var fails atomic.Int64
	for r := 0; r < runs; r++ {
		kr, _ := ml.NewKeyring([][]byte{keys[1], keys[2], keys[3]}, keys[0])
		plain := []byte("hello-world-0123456789")
		ct, _ := ml.VEncryptPayload(1, keys[3], plain, nil) // sealed under the LAST key, installed throughout
		var wg sync.WaitGroup
		wg.Add(3)
		go func() {
			defer wg.Done()
			for i := 0; i < 20; i++ {
				_ = kr.RemoveKey(keys[1])
				_ = kr.AddKey(keys[1])
				_ = kr.RemoveKey(keys[2])
				_ = kr.AddKey(keys[2])
			}
		}()
		for w := 0; w < 2; w++ {
			go func() {
				defer wg.Done()
				for i := 0; i < 40; i++ {
					got, err := ml.VDecryptPayload(kr.GetKeys(), append([]byte(nil), ct...), nil)
					if err != nil || !bytes.Equal(got, plain) {
						fails.Add(1)
					}
					_, _ = ml.VEncryptPayload(1, kr.GetPrimaryKey(), plain, nil)
				}
			}()
		}
		wg.Wait()
		rep.Evaluations++
	}
	rep.Extra["race_pass_runs"] = runs
	rep.Distinct = 2
	rep.Outcomes["runs"] = runs
	rep.Samples = append(rep.Samples, "RemoveKey(B);AddKey(B);RemoveKey(C);AddKey(C) x20 || decrypt(sealed under D) x40 || same")
	if fails.Load() > 0 {
		rep.Violate("decrypt-failed-during-rotation", fmt.Sprintf("%d decrypts of a message sealed under a key installed throughout failed while another key was being removed", fails.Load()), nil)
	}
}
