package mc

// C18 — the CIDR allowlist holds on every admission path. BFS over the real
// handlers with allowlists configured; claimed addresses include IPv4-mapped
// and malformed lengths; carriers include disallowed sources, compound,
// compressed, push/pull at join and anti-entropy; prior states of the name
// drive address change and name reclaim with disallowed targets.

import (
	"bytes"
	"fmt"
	"net"
	"strings"
	"testing"

	ml "github.com/hashicorp/memberlist"
)

// inNets re-states prefix matching over raw bytes (independent of the
// implementation's use of net.IPNet.Contains).
func inNets(ip []byte, cidrs []string) bool {
	var v []byte
	switch len(ip) {
	case 4:
		v = ip
	case 16:
		if bytes.Equal(ip[:12], []byte{0, 0, 0, 0, 0, 0, 0, 0, 0, 0, 0xff, 0xff}) {
			v = ip[12:]
		} else {
			v = ip
		}
	default:
		return false
	}
	for _, c := range cidrs {
		_, n, err := net.ParseCIDR(c)
		if err != nil {
			panic(err)
		}
		base := []byte(n.IP)
		if len(base) == 16 && len(v) == 4 {
			continue
		}
		if len(base) == 4 && len(v) == 16 {
			continue
		}
		ones, _ := n.Mask.Size()
		ok := true
		for bit := 0; bit < ones; bit++ {
			if (base[bit/8]>>(7-bit%8))&1 != (v[bit/8]>>(7-bit%8))&1 {
				ok = false
				break
			}
		}
		if ok {
			return true
		}
	}
	return false
}

func c18Alphabet(addrs []string) func(w *world) []cev {
	return func(w *world) []cev {
		s := w.o.M.VSnapshot()
		var out []cev
		h := uint32(1)
		if r := findRec(s, "x"); r != nil {
			h = r.Incarnation
		}
		for _, inc := range []uint32{h, h + 1} {
			if inc > 3 {
				continue
			}
			for _, ad := range addrs {
				out = append(out, cev{K: "alive", Node: "x", Inc: inc, Addr: ad, Meta: "m0", Vsn: "ok", Carrier: "pkt"})
				out = append(out, cev{K: "pp", Node: "x", Inc: inc, State: "alive", Addr: ad, Meta: "m0", Vsn: "ok"})
				if inc == h+1 {
					out = append(out, cev{K: "alive", Node: "x", Inc: inc, Addr: ad, Meta: "m0", Vsn: "ok", Carrier: "compound"})
					out = append(out, cev{K: "alive", Node: "x", Inc: inc, Addr: ad, Meta: "m0", Vsn: "ok", Carrier: "compcomp"})
					out = append(out, cev{K: "pp", Node: "x", Inc: inc, State: "alive", Addr: ad, Meta: "m0", Vsn: "ok", Join: true})
				}
			}
			// ... a zoned link-local address and a host name: sources whose host is not an IP literal are not allowed;
			// nor are disallowed addresses that a custom transport renders without a port
			for _, src := range []string{"192.168.1.1:7946", "pipe", "[2001:db8::1]:7946", "[fe80::bad%eth0]:7946", "gw.example:7946", "192.168.1.1", "2001:db8::1"} {
				for _, ad := range []string{"A", "X4"} {
					out = append(out, cev{K: "alive", Node: "x", Inc: inc, Addr: ad, Meta: "m0", Vsn: "ok", Carrier: "pkt", Src: src})
				}
				out = append(out, cev{K: "alive", Node: "x", Inc: inc, Addr: "A", Meta: "m0", Vsn: "ok", Carrier: "compound", Src: src})
				out = append(out, cev{K: "alive", Node: "x", Inc: inc, Addr: "B", Meta: "m0", Vsn: "ok", Carrier: "compressed", Src: src})
			}
		}
		own := s.Incarnation
		if own < 3 {
			for _, ad := range []string{"X4", "X16", "L5"} {
				out = append(out, cev{K: "alive", Node: "o", Inc: own + 1, Addr: ad, Meta: "om0", Vsn: "ok", Carrier: "pkt"})
				out = append(out, cev{K: "pp", Node: "o", Inc: own + 1, State: "alive", Addr: ad, Meta: "om0", Vsn: "ok"})
			}
		}
		out = append(out,
			cev{K: "suspect", Node: "x", Inc: h, From: "t", Carrier: "pkt"},
			cev{K: "dead", Node: "x", Inc: h, From: "t", Carrier: "pkt"},
			cev{K: "dead", Node: "x", Inc: h, From: "x", Carrier: "pkt"},
			cev{K: "advance", D: "reclaim"}, cev{K: "advance", D: "gtd"}, cev{K: "reap"}, cev{K: "drain"})
		return out
	}
}

func c18Oracle(cidrs []string) func(w *world, e cev, ob *stepObs) (string, string) {
	return func(w *world, e cev, ob *stepObs) (string, string) {
		if len(cidrs) == 0 {
			return "", ""
		}
		for i := range ob.After.Recs {
			r := &ob.After.Recs[i]
			if !inNets(r.Addr, cidrs) {
				kind := "disallowed-address-stored"
				if r.State == ml.StateAlive || r.State == ml.StateSuspect {
					kind = "disallowed-member-listed"
				}
				return kind, fmt.Sprintf("after %v: record %s holds address %v outside %v", e, recStr(r), net.IP(r.Addr), cidrs)
			}
		}
		for _, n := range w.o.M.Members() {
			if !inNets(n.Addr, cidrs) {
				return "disallowed-member-listed", fmt.Sprintf("after %v: Members() lists %s at %v", e, n.Name, n.Addr)
			}
		}
		for _, ev := range ob.Events {
			host, _, _ := net.SplitHostPort(ev.Addr)
			ip := net.ParseIP(host)
			if ip == nil || !(inNets(ip.To4(), cidrs) || inNets(ip.To16(), cidrs)) {
				return "disallowed-node-in-event", fmt.Sprintf("after %v: event %v", e, ev)
			}
		}
		for _, c := range w.o.Cf.Log {
			other := c[strings.Index(c, "->")+2:]
			host, _, _ := net.SplitHostPort(other)
			ip := net.ParseIP(host)
			if ip == nil || !(inNets(ip.To4(), cidrs) || inNets(ip.To16(), cidrs)) {
				return "disallowed-node-in-conflict-callback", c
			}
		}
		// alive gossip from a disallowed source is ignored entirely
		if e.K == "alive" && e.Src != "" && e.Src != "pipe" {
			host, _, _ := net.SplitHostPort(e.Src)
			ip := net.ParseIP(host)
			if !(inNets(ip.To4(), cidrs) || inNets(ip.To16(), cidrs)) {
				if fmt.Sprint(ob.Before.Recs) != fmt.Sprint(ob.After.Recs) || queueFull(ob.Before) != queueFull(ob.After) || len(ob.Events) != 0 || ob.Sent != 0 || ob.Conflicts != 0 {
					return "disallowed-source-had-effect", fmt.Sprintf("%v changed the node", e)
				}
			}
		}
		return "", ""
	}
}

func TestC18(t *testing.T) {
	rep := newReport()
	defer rep.Write(t)
	type cfg struct {
		name  string
		cidrs []string
		addrs []string
	}
	bad := []string{"X4", "X16", "X6", "NIL", "L0", "L3", "L5", "L15", "L17"}
	cfgs := []cfg{
		{"v4only", []string{"10.0.0.0/8"}, append([]string{"A", "A16", "B", "V6ok"}, bad...)},
		{"v4+v6", []string{"10.0.0.0/8", "fd00::/8"}, append([]string{"A", "A16", "V6ok"}, bad...)},
		{"emptylist", []string{}, []string{"A", "A16", "X4", "X6"}},
	}
	if thorough() {
		all := append([]string{"A", "A16", "B", "V6ok"}, bad...)
		cfgs = append(cfgs,
			cfg{"hosts32", []string{"10.0.0.1/32", "10.0.0.2/32", "10.0.0.9/32"}, all},
			cfg{"v6-and-own-hosts", []string{"10.0.0.1/32", "10.0.0.9/32", "fd00::/8"}, all},
			cfg{"any-v4", []string{"0.0.0.0/0"}, all},
			cfg{"overlapping", []string{"10.0.0.0/8", "10.0.0.0/30", "fd00::/8", "fd00::/16"}, all})
	}
	rep.Bounds = map[string]any{"allowlists": []string{"10.0.0.0/8", "10.0.0.0/8+fd00::/8", "empty", "(thorough) /32 hosts, v6 + own hosts, 0.0.0.0/0, overlapping nets"}, "claimed_addresses": "allowed v4 (4- and 16-byte), allowed v6, disallowed v4/v4-mapped/v6, lengths 0,3,5,15,17", "incarnation_cap": 3}
	rep.Rule = "BFS to fixpoint over canonical node states per allowlist; transitions = alive claims for every claimed address x carrier (packet from allowed/disallowed/pipe source, compound, compressed-compound, push/pull join and not) + claims about the node itself from disallowed addresses + state-changing events so that address change and name reclaim are driven from every prior state"
	var rp swimReplay
	replay := loadReplay(&rp)
	for i, c := range cfgs {
		if replay && rp.Cfg != c.name {
			continue
		}
		if !replay && !mine(i) {
			continue
		}
		sc := &swimCheck{name: "C18", wc: worldCfg{Peers: 1, Reclaim: 10e9, CIDRs: c.cidrs}, alphabet: c18Alphabet(c.addrs), oracle: c18Oracle(c.cidrs)}
		if replay {
			sc.runPath(t, rp.Path, func(w *world, ob *stepObs, i int) bool {
				d := w.diffRef(ob)
				sg, m := sc.oracle(w, rp.Path[i], ob)
				t.Logf("step %d %v: ref-diff=%q oracle=%q %s", i, rp.Path[i], d, sg, m)
				if d != "" || sg != "" {
					rep.Violate("replay:"+sg, d+m, rp)
				}
				rep.Transitions++
				return true
			})
			rep.States = 1
			rep.Samples = append(rep.Samples, pathStr(rp.Path))
			return
		}
		sc.bfs(t, rep, c.name)
	}
	rep.Distinct = rep.States
	rep.Evaluations = rep.Transitions
}
