package mc

// C19 — probe acknowledgements: correlation, relay, cleanup, health.
// Engine S with exact virtual time: the harness *is* the probed node, the
// indirect helpers, the TCP fallback server and the requester of relayed
// probes, answering from an exhaustively enumerated script space.

import (
	"fmt"
	"math"
	"net"
	"strings"
	"testing"
	"time"

	ml "github.com/hashicorp/memberlist"
)

const (
	c19PT = 300 * time.Millisecond
	c19PI = time.Second
)

type c19Case struct {
	Indirect   int      // IndirectChecks
	HelperPMax uint8    // 3 (no nacks) or 5
	Score      int      // prior health score
	Direct     string   // none own@1 own@pt- own@pt+ own@i- own@i+ stale@1 foreign@1 third@1
	Helpers    []string // per helper: silent ack@pt+ ack@i- ack@i+ nack nack+ack dupnack nackforeign
	TCP        string   // disabled refused ackown ackwrong stall garbage
	SendErr    string   `json:",omitempty"` // answer of the transport to the direct ping: "" (sent), "local" (plain error), "remote" (udp write error)
	HelperVers []uint8  `json:",omitempty"` // per-helper protocol maximum (mixed clusters); overrides HelperPMax
	IntervalMs int      `json:",omitempty"` // ProbeInterval override in ms (default 1000); below the 300 ms ProbeTimeout the pending record expires before the direct wait ends
	SeqStart   uint32   `json:",omitempty"` // non-zero: the sequence counter is preset to this value before the probe (wrap-around at 2^32)
	PriorSusp  bool     `json:",omitempty"` // x is already suspected when the probe starts (the ping travels in a compound with the suspect message)
}

func (c c19Case) pi() time.Duration {
	if c.IntervalMs > 0 {
		return time.Duration(c.IntervalMs) * time.Millisecond
	}
	return c19PI
}

func (c c19Case) verOf(i int) uint8 {
	if i < len(c.HelperVers) {
		return c.HelperVers[i]
	}
	return c.HelperPMax
}

func (c c19Case) String() string {
	se := ""
	if c.SendErr != "" {
		se = " ping-send-error=" + c.SendErr
	}
	if len(c.HelperVers) > 0 {
		se += fmt.Sprintf(" helper-versions=%v", c.HelperVers)
	}
	if c.IntervalMs > 0 {
		se += fmt.Sprintf(" probe-interval=%dms", c.IntervalMs)
	}
	if c.PriorSusp {
		se += " target-already-suspected"
	}
	if c.SeqStart != 0 {
		se += fmt.Sprintf(" sequence-counter=%d", c.SeqStart)
	}
	return fmt.Sprintf("indirect=%d pmax=%d score=%d direct=%s helpers=%v tcp=%s%s", c.Indirect, c.HelperPMax, c.Score, c.Direct, c.Helpers, c.TCP, se)
}

type c19Expect struct {
	Answered bool
	Delta    int
}

func c19Ref(c c19Case) c19Expect {
	interval := c.pi() * time.Duration(c.Score+1)
	at := func(s string) (time.Duration, bool) {
		switch s {
		case "own@1", "third@1":
			return time.Millisecond, true
		case "own@pt-":
			return c19PT - time.Millisecond, c19PT-time.Millisecond < interval
		case "own@pt+":
			return c19PT + time.Millisecond, c19PT+time.Millisecond < interval
		case "own@i-":
			return interval - time.Millisecond, true
		}
		return 0, false // none, too late, stale or foreign number
	}
	if _, ok := at(c.Direct); ok {
		return c19Expect{true, -1}
	}
	expected, received := 0, 0
	for i, h := range c.Helpers {
		if c.verOf(i) >= 4 {
			expected++
		}
		switch h {
		case "ack@pt+", "ack@i-", "nack+ack":
			return c19Expect{true, -1}
		case "nack":
			received++
		case "dupnack":
			received += 2
		}
	}
	// the stream ping is started when the direct wait ends (after ProbeTimeout) and gets what is left of
	// the probe's deadline: with an interval at or below the timeout nothing is left
	if (c.TCP == "ackown" || c.TCP == "fornode-other") && c19PT < interval {
		return c19Expect{true, -1}
	}
	if cap := c.Indirect + 1; received > cap {
		received = cap
	}
	d := 1
	if expected > 0 {
		d = expected - received
		if d < 0 {
			d = 0
		}
	}
	return c19Expect{false, d}
}

func c19RunProbe(t *testing.T, c c19Case) (sig, msg string) {
	res := inBubble(t, func(b *bubble) {
		installDetRand()
		nd, err := newNode("o", ip4(1), func(cf *ml.Config) {
			cf.IndirectChecks = c.Indirect
			cf.ProbeTimeout = c19PT
			cf.ProbeInterval = c.pi()
			cf.DisableTcpPings = c.TCP == "disabled"
			switch c.TCP {
			case "fornode": // the per-node switch says: no stream pings for x
				cf.DisableTcpPingsForNode = func(name string) bool { return name == "x" }
			case "fornode-other": // the per-node switch spares x (the stream server acks with the right number)
				cf.DisableTcpPingsForNode = func(name string) bool { return name != "x" }
			}
		})
		must(err)
		o := b.track(nd)
		advance(time.Microsecond)
		o.M.VAliveNode(&ml.VAlive{Incarnation: 1, Node: "x", Addr: ip4(2), Port: 7946, Vsn: []uint8{1, 5, 2, 0, 0, 0}}, nil, false)
		nh := len(c.Helpers)
		for i := 0; i < nh; i++ {
			o.M.VAliveNode(&ml.VAlive{Incarnation: 1, Node: fmt.Sprintf("h%d", i), Addr: ip4(byte(20 + i)), Port: 7946, Vsn: []uint8{1, c.verOf(i), 2, 0, 0, 0}}, nil, false)
		}
		o.M.VApplyAwarenessDelta(c.Score)
		for o.M.VBroadcasts().NumQueued() > 0 {
			o.M.VGetBroadcasts(0, 1400)
		}
		if c.PriorSusp {
			o.M.VSuspectNode(&ml.VSuspect{Incarnation: 1, Node: "x", From: "o"})
			advance(time.Microsecond)
		}
		for o.M.VBroadcasts().NumQueued() > 0 {
			o.M.VGetBroadcasts(0, 1400)
		}
		interval := c.pi() * time.Duration(c.Score+1)
		// TCP fallback server
		var pingSeq uint32
		pingFound := false
		if c.SeqStart != 0 {
			o.M.VSetSeqNo(c.SeqStart)
		}
		o.T.OnDial = func(a ml.Address, d time.Duration) (net.Conn, error) {
			if c.TCP == "refused" {
				return nil, &net.OpError{Op: "dial", Net: "tcp", Err: fmt.Errorf("refused")}
			}
			c1, c2 := simPipe(o.Addr, simAddr(a.Addr))
			b.conns = append(b.conns, c1, c2)
			go func() {
				buf := make([]byte, 512)
				n, _ := c2.Read(buf)
				if n == 0 {
					return
				}
				switch c.TCP {
				case "ackown", "ackwrong", "fornode-other":
					var p ml.VPing
					if buf[0] != ml.VPingMsg || ml.VDecode(buf[1:n], &p) != nil {
						return
					}
					seq := p.SeqNo
					if c.TCP == "ackwrong" {
						seq += 5
					}
					out, _ := ml.VEncode(ml.VAckRespMsg, &ml.VAckResp{SeqNo: seq}, false)
					_, _ = c2.Write(out)
				case "garbage":
					_, _ = c2.Write([]byte{0xc1, 0xff, 0x00, 0x13})
				case "ackgarbage": // the right message type, then a body that does not decode
					_, _ = c2.Write([]byte{ml.VAckRespMsg, 0x82, 0xa5, 'S', 'e', 'q', 'N', 'o', 0xc1})
				case "stall":
				}
			}()
			return c1, nil
		}
		o.T.TakeSent()
		if c.SendErr != "" {
			o.T.FailSend = func(p sentPkt) error {
				if p.To != "10.0.0.2:7946" {
					return nil
				}
				leaves, _ := explode(p.Buf)
				for _, l := range leaves {
					var pg ml.VPing
					if l[0] == ml.VPingMsg && ml.VDecode(l[1:], &pg) == nil && pg.Node == "x" {
						pingSeq, pingFound = pg.SeqNo, true
					}
				}
				if c.SendErr == "remote" {
					return &net.OpError{Op: "write", Net: "udp", Err: fmt.Errorf("connection refused")}
				}
				return fmt.Errorf("sendto: operation not permitted")
			}
		}
		t0 := time.Now()
		done := make(chan struct{})
		go func() { o.M.VProbeNodeByName("x"); close(done) }()
		settle()
		if c.SendErr == "local" {
			// the probe was never handed to the network: it is neither a failed nor a
			// successful probe. Nothing may follow from it.
			if d := interval + time.Microsecond - time.Since(t0); d > 0 {
				time.Sleep(d)
			}
			settle()
			s := o.M.VSnapshot()
			select {
			case <-done:
			default:
				sig, msg = "probe-overran-deadline", c.String()
				return
			}
			switch x := findRec(s, "x"); {
			case !pingFound:
				sig, msg = "no-ping-sent", c.String()
			case s.AckHandlers != 0:
				sig, msg = "pending-probe-record-leaked", fmt.Sprintf("%v: %d pending records one microsecond after the deadline", c, s.AckHandlers)
			case x.State != ml.StateAlive && !c.PriorSusp:
				sig, msg = "unsent-probe-suspected", fmt.Sprintf("%v: the ping never left this node, yet x is %s", c, recStr(x))
			case s.Health < c.Score:
				sig, msg = "health-fell-without-successful-probe", fmt.Sprintf("%v: score %d -> %d although no probe was sent, let alone answered", c, c.Score, s.Health)
			case s.Health > c.Score:
				sig, msg = "health-rose-without-failed-probe", fmt.Sprintf("%v: score %d -> %d although no probe was sent", c, c.Score, s.Health)
			case o.T.NumSent() != 0:
				sig, msg = "unsent-probe-went-on", fmt.Sprintf("%v: %d packets followed", c, o.T.NumSent())
			}
			return
		}
		// the ping
		type sched struct {
			at  time.Duration
			buf []byte
			src simAddr
		}
		var plan []sched
		for _, p := range o.T.TakeSent() {
			leaves, _ := explode(p.Buf)
			for _, l := range leaves {
				var pg ml.VPing
				if l[0] == ml.VPingMsg && ml.VDecode(l[1:], &pg) == nil && pg.Node == "x" {
					pingSeq, pingFound = pg.SeqNo, true
				}
			}
		}
		if !pingFound {
			sig, msg = "no-ping-sent", c.String()
			return
		}
		if c.SeqStart != 0 && pingSeq != c.SeqStart+1 {
			sig, msg = "sequence-number-not-next", fmt.Sprintf("%v: the probe carries number %d", c, pingSeq)
			return
		}
		ack := func(seq uint32) []byte {
			out, _ := ml.VEncode(ml.VAckRespMsg, &ml.VAckResp{SeqNo: seq}, false)
			return out
		}
		nack := func(seq uint32) []byte {
			out, _ := ml.VEncode(ml.VNackRespMsg, &ml.VNackResp{SeqNo: seq}, false)
			return out
		}
		xa, third := simAddr("10.0.0.2:7946"), simAddr("10.0.0.66:7946")
		switch c.Direct {
		case "own@1":
			plan = append(plan, sched{time.Millisecond, ack(pingSeq), xa})
		case "own@pt-":
			plan = append(plan, sched{c19PT - time.Millisecond, ack(pingSeq), xa})
		case "own@pt+":
			plan = append(plan, sched{c19PT + time.Millisecond, ack(pingSeq), xa})
		case "own@i-":
			plan = append(plan, sched{interval - time.Millisecond, ack(pingSeq), xa})
		case "own@i+":
			plan = append(plan, sched{interval + time.Millisecond, ack(pingSeq), xa})
		case "stale@1":
			plan = append(plan, sched{time.Millisecond, ack(pingSeq - 1), xa})
		case "foreign@1":
			plan = append(plan, sched{time.Millisecond, ack(pingSeq + 7), xa})
		case "third@1":
			plan = append(plan, sched{time.Millisecond, ack(pingSeq), third})
		}
		for i, h := range c.Helpers {
			ha := simAddr(fmt.Sprintf("10.0.0.%d:7946", 20+i))
			off := time.Duration(i+1) * 3 * time.Microsecond
			switch h {
			case "ack@pt+":
				plan = append(plan, sched{c19PT + 10*time.Millisecond + off, ack(pingSeq), ha})
			case "ack@i-":
				plan = append(plan, sched{interval - time.Millisecond - off, ack(pingSeq), ha})
			case "ack@i+":
				plan = append(plan, sched{interval + time.Millisecond + off, ack(pingSeq), ha})
			case "nack":
				plan = append(plan, sched{2*c19PT + off, nack(pingSeq), ha})
			case "nack+ack":
				plan = append(plan, sched{2*c19PT + off, nack(pingSeq), ha}, sched{interval - time.Millisecond - off, ack(pingSeq), ha})
			case "dupnack":
				plan = append(plan, sched{2*c19PT + off, nack(pingSeq), ha}, sched{2*c19PT + off + time.Microsecond, nack(pingSeq), ha})
			case "nackforeign":
				plan = append(plan, sched{2*c19PT + off, nack(pingSeq + 9), ha})
			}
		}
		// deliver in time order
		for len(plan) > 0 {
			bi := 0
			for i := range plan {
				if plan[i].at < plan[bi].at {
					bi = i
				}
			}
			p := plan[bi]
			plan = append(plan[:bi], plan[bi+1:]...)
			if d := p.at - time.Since(t0); d > 0 {
				time.Sleep(d)
			}
			settle()
			o.T.Deliver(p.buf, p.src)
			settle()
		}
		if d := interval + time.Microsecond - time.Since(t0); d > 0 {
			time.Sleep(d)
		}
		settle()
		s := o.M.VSnapshot()
		if s.AckHandlers != 0 {
			sig, msg = "pending-probe-record-leaked", fmt.Sprintf("%v: %d pending records one microsecond after the deadline", c, s.AckHandlers)
			return
		}
		select {
		case <-done:
		default:
			time.Sleep(50 * time.Millisecond)
			settle()
			select {
			case <-done:
			default:
				sig, msg = "probe-overran-deadline", c.String()
				return
			}
		}
		// a nack is requested from exactly the helpers that know what a nack is
		for _, p := range o.T.TakeSent() {
			leaves, _ := explode(p.Buf)
			for _, l := range leaves {
				var ind ml.VIndirectPingReq
				if l[0] != ml.VIndirectPingMsg || ml.VDecode(l[1:], &ind) != nil {
					continue
				}
				for i := range c.Helpers {
					if p.To == fmt.Sprintf("10.0.0.%d:7946", 20+i) && ind.Nack != (c.verOf(i) >= 4) {
						sig, msg = "nack-requested-from-wrong-helper", fmt.Sprintf("%v: the request to helper %d (protocol max %d) has Nack=%v", c, i, c.verOf(i), ind.Nack)
						return
					}
				}
			}
		}
		s = o.M.VSnapshot()
		exp := c19Ref(c)
		x := findRec(s, "x")
		suspected := x.State == ml.StateSuspect
		if c.PriorSusp {
			// an ack does not lift a suspicion and a further failure of ours adds nothing to it (the
			// suspicion may run out during the probe: then x is dead at the same incarnation)
			if x.State == ml.StateAlive || x.Incarnation != 1 {
				sig, msg = "prior-suspicion-changed-by-probe", fmt.Sprintf("%v: x is %s", c, recStr(x))
				return
			}
		} else if exp.Answered && suspected {
			sig, msg = "answered-probe-suspected", fmt.Sprintf("%v: an ack with the probe's own number arrived in time but x is %s", c, recStr(x))
			return
		}
		if !c.PriorSusp && !exp.Answered && !suspected {
			sig, msg = "unanswered-probe-not-suspected", fmt.Sprintf("%v: no valid ack arrived in time but x is %s", c, recStr(x))
			return
		}
		want := c.Score + exp.Delta
		if want < 0 {
			want = 0
		}
		if want > 7 {
			want = 7
		}
		if c.SendErr == "remote" && exp.Answered && s.Health == c.Score {
			// the direct ping was refused and a relayed ack saved the probe: the statement lets the
			// score fall on a successful probe, it does not demand it (the code leaves it unchanged)
			want = c.Score
		}
		if s.Health != want {
			sig = "health-score"
			if !exp.Answered && s.Health < c.Score {
				sig = "health-fell-on-failed-probe"
			}
			msg = fmt.Sprintf("%v: score %d -> %d, reference %d", c, c.Score, s.Health, want)
			return
		}
		nSus := 0
		for _, q := range s.Queue {
			if decodeQueued(q.Msg) == "suspect 1" && q.Name == "x" {
				nSus++
			}
		}
		if !c.PriorSusp && !exp.Answered && nSus != 1 {
			sig, msg = "suspect-broadcast-count", fmt.Sprintf("%v: %d", c, nSus)
		}
		if s.Health < 0 || s.Health > 7 {
			sig, msg = "health-out-of-range", fmt.Sprint(s.Health)
		}
	})
	if res.Panic != nil {
		return "panic", fmt.Sprintf("%v: %v", c, res.Panic)
	}
	if res.Leak {
		return "goroutine-leak", c.String()
	}
	return
}

// ---------------------------------------------------------------- relay

type c19Relay struct {
	Nack    bool
	Target  string // never ack@1 ack@pt- ack@pt+ twice foreign foreign+own
	SendErr string `json:",omitempty"` // answer of the relay's transport to its ping: "" (sent), "local", "remote"
	Score   int    `json:",omitempty"` // the relay's own health score when the request arrives
}

func c19RunRelay(t *testing.T, c c19Relay) (sig, msg string) {
	res := inBubble(t, func(b *bubble) {
		nd, err := newNode("o", ip4(1), func(cf *ml.Config) { cf.ProbeTimeout = c19PT; cf.ProbeInterval = c19PI })
		must(err)
		o := b.track(nd)
		advance(time.Microsecond)
		for o.M.VBroadcasts().NumQueued() > 0 {
			o.M.VGetBroadcasts(0, 1400)
		}
		o.M.VApplyAwarenessDelta(c.Score) // a relay that is itself degraded keeps the same deadlines towards others
		seqBefore := o.M.VSnapshot().SeqNo
		const R = 7777
		req := &ml.VIndirectPingReq{SeqNo: R, Target: ip4(2), Port: 7946, Node: "x", Nack: c.Nack, SourceAddr: ip4(50), SourcePort: 7946, SourceNode: "q"}
		buf, _ := ml.VEncode(ml.VIndirectPingMsg, req, false)
		o.T.TakeSent()
		var refused, refusedReply []sentPkt
		if c.SendErr != "" {
			o.T.FailSend = func(p sentPkt) error {
				if strings.HasPrefix(c.SendErr, "reply-") {
					// the relay's answer to the requester is what the transport refuses
					if p.To != "10.0.0.50:7946" {
						return nil
					}
					refusedReply = append(refusedReply, p)
					if c.SendErr == "reply-remote" {
						return &net.OpError{Op: "write", Net: "udp", Err: fmt.Errorf("connection refused")}
					}
					return fmt.Errorf("sendto: no buffer space available")
				}
				if p.To != "10.0.0.2:7946" {
					return nil
				}
				refused = append(refused, p)
				if c.SendErr == "remote" {
					return &net.OpError{Op: "write", Net: "udp", Err: fmt.Errorf("connection refused")}
				}
				return fmt.Errorf("sendto: network is unreachable")
			}
		}
		t0 := time.Now()
		o.T.Deliver(buf, simAddr("10.0.0.50:7946"))
		settle()
		var L uint32
		pings := 0
		for _, p := range append(o.T.TakeSent(), refused...) {
			leaves, _ := explode(p.Buf)
			for _, l := range leaves {
				var pg ml.VPing
				if l[0] == ml.VPingMsg && ml.VDecode(l[1:], &pg) == nil {
					pings++
					L = pg.SeqNo
					if p.To != "10.0.0.2:7946" || pg.Node != "x" {
						sig, msg = "relay-pinged-wrong-target", fmt.Sprintf("%v: ping to %s for %q", c, p.To, pg.Node)
					}
				}
			}
		}
		if sig != "" {
			return
		}
		if pings != 1 {
			sig, msg = "relay-ping-count", fmt.Sprintf("%v: %d pings", c, pings)
			return
		}
		if L == R || L != seqBefore+1 {
			sig, msg = "relay-number-not-fresh", fmt.Sprintf("%v: pinged the target with number %d (requester's %d, own counter was %d)", c, L, R, seqBefore)
			return
		}
		ack := func(seq uint32) []byte {
			out, _ := ml.VEncode(ml.VAckRespMsg, &ml.VAckResp{SeqNo: seq}, false)
			return out
		}
		type sched struct {
			at  time.Duration
			buf []byte
		}
		var plan []sched
		acked := false
		switch c.Target {
		case "ack@1":
			plan, acked = []sched{{time.Millisecond, ack(L)}}, true
		case "ack@pt-":
			plan, acked = []sched{{c19PT - time.Millisecond, ack(L)}}, true
		case "ack@pt+":
			plan = []sched{{c19PT + time.Millisecond, ack(L)}}
		case "twice":
			plan, acked = []sched{{time.Millisecond, ack(L)}, {2 * time.Millisecond, ack(L)}}, true
		case "foreign":
			plan = []sched{{time.Millisecond, ack(L + 3)}, {2 * time.Millisecond, ack(R)}}
		case "foreign+own":
			plan, acked = []sched{{time.Millisecond, ack(R)}, {2 * time.Millisecond, ack(L)}}, true
		}
		for _, p := range plan {
			if d := p.at - time.Since(t0); d > 0 {
				time.Sleep(d)
			}
			settle()
			o.T.Deliver(p.buf, simAddr("10.0.0.2:7946"))
			settle()
		}
		if d := c19PT + time.Microsecond - time.Since(t0); d > 0 {
			time.Sleep(d)
		}
		settle()
		if n := o.M.VSnapshot().AckHandlers; n != 0 {
			sig, msg = "pending-probe-record-leaked", fmt.Sprintf("%v: %d pending records after the probe timeout", c, n)
			return
		}
		time.Sleep(2 * c19PI)
		settle()
		acks, nacks := 0, 0
		for _, p := range append(o.T.TakeSent(), refusedReply...) {
			leaves, _ := explode(p.Buf)
			for _, l := range leaves {
				switch l[0] {
				case ml.VAckRespMsg:
					var a ml.VAckResp
					_ = ml.VDecode(l[1:], &a)
					if a.SeqNo != R || p.To != "10.0.0.50:7946" {
						sig, msg = "relay-ack-wrong-number", fmt.Sprintf("%v: relayed ack number %d to %s (requester's number %d)", c, a.SeqNo, p.To, R)
						return
					}
					acks++
				case ml.VNackRespMsg:
					var a ml.VNackResp
					_ = ml.VDecode(l[1:], &a)
					if a.SeqNo != R || p.To != "10.0.0.50:7946" {
						sig, msg = "relay-nack-wrong-number", fmt.Sprintf("%v: nack number %d to %s", c, a.SeqNo, p.To)
						return
					}
					nacks++
				}
			}
		}
		wantAcks, wantNacks := 0, 0
		if acked {
			wantAcks = 1
		} else if c.Nack {
			wantNacks = 1
		}
		if acks != wantAcks {
			sig, msg = "relay-ack-count", fmt.Sprintf("%v: relayed %d acks, reference %d", c, acks, wantAcks)
			return
		}
		if nacks != wantNacks {
			sig, msg = "relay-nack-count", fmt.Sprintf("%v: sent %d nacks, reference %d", c, nacks, wantNacks)
			return
		}
		// a second request for the same target, answered at once: the first episode must have left nothing behind
		o.T.FailSend = nil
		const R2 = 8888
		req.SeqNo = R2
		buf2, _ := ml.VEncode(ml.VIndirectPingMsg, req, false)
		o.T.Deliver(buf2, simAddr("10.0.0.50:7946"))
		settle()
		var L2 uint32
		for _, p := range o.T.TakeSent() {
			leaves, _ := explode(p.Buf)
			for _, l := range leaves {
				var pg ml.VPing
				if l[0] == ml.VPingMsg && ml.VDecode(l[1:], &pg) == nil && p.To == "10.0.0.2:7946" {
					L2 = pg.SeqNo
				}
			}
		}
		if L2 == 0 || L2 == L || L2 == R2 {
			sig, msg = "relay-second-request-number", fmt.Sprintf("%v: second request pinged the target with number %d (first %d, requester's %d)", c, L2, L, R2)
			return
		}
		time.Sleep(time.Millisecond)
		o.T.Deliver(ack(L2), simAddr("10.0.0.2:7946"))
		settle()
		time.Sleep(c19PT + 2*c19PI)
		settle()
		a2, n2 := 0, 0
		for _, p := range o.T.TakeSent() {
			leaves, _ := explode(p.Buf)
			for _, l := range leaves {
				var a ml.VAckResp
				if l[0] == ml.VAckRespMsg && ml.VDecode(l[1:], &a) == nil && a.SeqNo == R2 && p.To == "10.0.0.50:7946" {
					a2++
				} else if l[0] == ml.VAckRespMsg || l[0] == ml.VNackRespMsg {
					n2++
				}
			}
		}
		if a2 != 1 || n2 != 0 {
			sig, msg = "relay-second-request", fmt.Sprintf("%v: the second request got %d relayed acks under its number and %d other replies", c, a2, n2)
			return
		}
		if n := o.M.VSnapshot().AckHandlers; n != 0 {
			sig, msg = "pending-probe-record-leaked", fmt.Sprintf("%v: %d pending records after the second request", c, n)
		}
	})
	if res.Panic != nil {
		return "panic", fmt.Sprintf("%v: %v", c, res.Panic)
	}
	if res.Leak {
		return "goroutine-leak", fmt.Sprint(c)
	}
	return
}

// ---------------------------------------------------------------- the public Ping helper

type c19Ping struct {
	IntervalMs, TimeoutMs int
	Peer                  string // silent own@1 own@late foreign third
}

func c19RunPing(t *testing.T, c c19Ping) (sig, msg string) {
	res := inBubble(t, func(b *bubble) {
		installDetRand()
		pi, pt := time.Duration(c.IntervalMs)*time.Millisecond, time.Duration(c.TimeoutMs)*time.Millisecond
		nd, err := newNode("o", ip4(1), func(cf *ml.Config) { cf.ProbeInterval = pi; cf.ProbeTimeout = pt })
		must(err)
		o := b.track(nd)
		advance(time.Microsecond)
		o.T.TakeSent()
		type resT struct {
			rtt time.Duration
			err error
		}
		done := make(chan resT, 1)
		t0 := time.Now()
		go func() {
			rtt, err := o.M.Ping("x", simTCPAddr{"10.0.0.2:7946"})
			done <- resT{rtt, err}
		}()
		settle()
		var seq uint32
		for _, p := range o.T.TakeSent() {
			leaves, _ := explode(p.Buf)
			for _, l := range leaves {
				var pg ml.VPing
				if l[0] == ml.VPingMsg && ml.VDecode(l[1:], &pg) == nil {
					seq = pg.SeqNo
				}
			}
		}
		if seq == 0 {
			sig, msg = "no-ping-sent", fmt.Sprint(c)
			return
		}
		ack := func(sq uint32, at time.Duration, from string) {
			if d := at - time.Since(t0); d > 0 {
				time.Sleep(d)
			}
			settle()
			out, _ := ml.VEncode(ml.VAckRespMsg, &ml.VAckResp{SeqNo: sq}, false)
			o.T.Deliver(out, simAddr(from))
			settle()
		}
		answered := false
		switch c.Peer {
		case "own@1":
			ack(seq, time.Millisecond, "10.0.0.2:7946")
			answered = true
		case "own@late":
			ack(seq, pt+time.Millisecond, "10.0.0.2:7946")
		case "foreign":
			ack(seq+5, time.Millisecond, "10.0.0.2:7946")
		case "third":
			ack(seq, time.Millisecond, "10.0.0.77:7946")
			answered = true // the number decides, not the sender
		}
		lim := pt
		if pi > lim {
			lim = pi
		}
		time.Sleep(lim + 10*time.Millisecond - time.Since(t0))
		settle()
		select {
		case r := <-done:
			switch {
			case answered && r.err != nil:
				sig, msg = "ping-answered-but-error", fmt.Sprintf("%+v: %v", c, r.err)
			case !answered && r.err == nil:
				sig, msg = "ping-unanswered-reported-success", fmt.Sprintf("%+v: Ping returned rtt=%v, nil although no ack with its number arrived within the probe timeout", c, r.rtt)
			}
		default:
			sig, msg = "ping-did-not-return", fmt.Sprintf("%+v", c)
		}
		if n := o.M.VSnapshot().AckHandlers; n != 0 && sig == "" {
			sig, msg = "pending-probe-record-leaked", fmt.Sprintf("%+v: %d records after max(interval, timeout)", c, n)
		}
	})
	if res.Panic != nil {
		return "panic", fmt.Sprintf("%+v: %v", c, res.Panic)
	}
	if res.Leak {
		return "goroutine-leak", fmt.Sprintf("%+v", c)
	}
	return
}

// idle node: acks/nacks for unknown numbers have no effect
func c19RunIdle(t *testing.T) (sig, msg string) {
	inBubble(t, func(b *bubble) {
		nd, err := newNode("o", ip4(1))
		must(err)
		o := b.track(nd)
		advance(time.Microsecond)
		before := fmt.Sprint(o.M.VSnapshot().Recs, o.M.VSnapshot().Health, o.M.VSnapshot().AckHandlers)
		o.T.TakeSent()
		for _, seq := range []uint32{0, 1, 2, 99, 0xffffffff} {
			a, _ := ml.VEncode(ml.VAckRespMsg, &ml.VAckResp{SeqNo: seq}, false)
			n, _ := ml.VEncode(ml.VNackRespMsg, &ml.VNackResp{SeqNo: seq}, false)
			o.T.Deliver(a, simAddr("10.0.0.9:7946"))
			o.T.Deliver(n, simAddr("10.0.0.9:7946"))
			settle()
		}
		after := fmt.Sprint(o.M.VSnapshot().Recs, o.M.VSnapshot().Health, o.M.VSnapshot().AckHandlers)
		if before != after || o.T.NumSent() != 0 {
			sig, msg = "unknown-ack-had-effect", fmt.Sprintf("%s -> %s, %d packets", before, after, o.T.NumSent())
		}
	})
	return
}

type c19Replay struct {
	Probe *c19Case  `json:"probe,omitempty"`
	Relay *c19Relay `json:"relay,omitempty"`
	Ping  *c19Ping  `json:"ping,omitempty"`
}

func TestC19(t *testing.T) {
	rep := newReport()
	defer rep.Write(t)
	var rp c19Replay
	if loadReplay(&rp) {
		var sig, msg string
		if rp.Probe != nil {
			sig, msg = c19RunProbe(t, *rp.Probe)
		} else if rp.Relay != nil {
			sig, msg = c19RunRelay(t, *rp.Relay)
		} else if rp.Ping != nil {
			sig, msg = c19RunPing(t, *rp.Ping)
		}
		t.Logf("replay: %q %s", sig, msg)
		if sig != "" {
			rep.Violate(sig, msg, rp)
		}
		rep.States, rep.Transitions = 1, 1
		rep.Samples = append(rep.Samples, rp)
		return
	}
	rep.Rule = "every script in the product direct-ack(9) x per-helper behaviour(8^k, symmetric subset for k=3 in quick) x TCP fallback(6) x helper protocol(2) x prior score(3) x IndirectChecks{0,1,3}, plus the relay product nack-flag(2) x target behaviour(7), plus all health-delta sequences to fixpoint; distinct = distinct (script, outcome) classes"
	rep.Bounds = map[string]any{"probe_timeout": c19PT.String(), "probe_interval": c19PI.String(), "indirect_checks": []int{0, 1, 3}, "scores": []int{0, 3, 7}}
	rep.Assumptions = []string{"instants exactly on a timeout are excluded (+-1ms used instead)", "harness plays target, helpers, TCP server and requester"}
	directs := []string{"none", "own@1", "own@pt-", "own@pt+", "own@i-", "own@i+", "stale@1", "foreign@1", "third@1"}
	hb := []string{"silent", "ack@pt+", "ack@i-", "ack@i+", "nack", "nack+ack", "dupnack", "nackforeign"}
	tcps := []string{"disabled", "refused", "ackown", "ackwrong", "stall", "garbage"}
	idx := 0
	run := func(c c19Case) {
		idx++
		if !mine(idx) {
			return
		}
		journal("C19 probe %v", c)
		sig, msg := c19RunProbe(t, c)
		rep.Transitions++
		rep.Evaluations++
		e := c19Ref(c)
		if sig != "" {
			rep.Violate(sig, msg, c19Replay{Probe: &c})
			rep.Outcome("violation")
		} else {
			rep.Outcome(fmt.Sprintf("answered=%v delta=%d", e.Answered, e.Delta))
		}
		if rep.Evaluations%3000 == 1 {
			rep.Sample(c.String())
		}
	}
	for _, k := range []int{0, 1, 3} {
		var helperSets [][]string
		switch k {
		case 0:
			helperSets = [][]string{nil}
		case 1:
			for _, h := range hb {
				helperSets = append(helperSets, []string{h})
			}
		case 3:
			for _, a := range hb {
				for _, bb := range hb {
					if thorough() {
						for _, cc := range hb {
							helperSets = append(helperSets, []string{a, bb, cc})
						}
					} else {
						helperSets = append(helperSets, []string{a, a, bb})
					}
				}
			}
		}
		for _, hs := range helperSets {
			for _, d := range directs {
				for _, tc := range tcps {
					for _, pm := range []uint8{3, 5} {
						if k == 0 && pm == 3 {
							continue
						}
						for _, sc := range []int{0, 3, 7} {
							if !thorough() && k == 3 && sc == 3 {
								continue
							}
							run(c19Case{Indirect: k, HelperPMax: pm, Score: sc, Direct: d, Helpers: hs, TCP: tc})
						}
					}
				}
			}
		}
	}
	// fewer helpers available than IndirectChecks
	for _, d := range []string{"none", "own@pt+"} {
		run(c19Case{Indirect: 3, HelperPMax: 5, Score: 0, Direct: d, Helpers: []string{"nack"}, TCP: "refused"})
	}
	// mixed clusters: helpers with and without nack support, in both orders
	for _, vers := range [][]uint8{{5, 3}, {3, 5}, {5, 3, 5}, {3, 5, 3}, {5, 5, 3}, {3, 3, 5}} {
		for _, sc := range []int{0, 3} {
			for _, tc := range []string{"disabled", "refused"} {
				for _, newH := range []string{"silent", "nack", "ack@i-"} {
					for _, oldH := range []string{"silent", "ack@pt+"} {
						hs := make([]string, len(vers))
						for i, v := range vers {
							if v >= 4 {
								hs[i] = newH
							} else {
								hs[i] = oldH
							}
						}
						k := 3
						if len(vers) == 2 {
							k = 2
						}
						run(c19Case{Indirect: k, HelperPMax: 5, Score: sc, Direct: "none", Helpers: hs, TCP: tc, HelperVers: vers})
					}
				}
			}
		}
	}
	// the transport refuses the direct ping (an environment answer)
	for _, se := range []string{"local", "remote"} {
		for _, sc := range []int{0, 3, 7} {
			for _, tc := range []string{"disabled", "refused", "ackown", "stall"} {
				run(c19Case{Indirect: 0, HelperPMax: 5, Score: sc, Direct: "none", TCP: tc, SendErr: se})
				for _, h := range []string{"silent", "nack", "ack@i-", "ack@pt+"} {
					for _, pm := range []uint8{3, 5} {
						run(c19Case{Indirect: 1, HelperPMax: pm, Score: sc, Direct: "none", Helpers: []string{h}, TCP: tc, SendErr: se})
						run(c19Case{Indirect: 3, HelperPMax: pm, Score: sc, Direct: "none", Helpers: []string{h, "silent", "nack"}, TCP: tc, SendErr: se})
					}
				}
			}
		}
	}
	// the other stream-ping switches and answers
	for _, tc := range []string{"fornode", "fornode-other", "ackgarbage"} {
		for _, sc := range []int{0, 3} {
			for _, d := range []string{"none", "own@pt+", "own@i+", "foreign@1"} {
				run(c19Case{Indirect: 0, HelperPMax: 5, Score: sc, Direct: d, TCP: tc})
				for _, h := range []string{"silent", "nack", "ack@i-"} {
					run(c19Case{Indirect: 1, HelperPMax: 5, Score: sc, Direct: d, Helpers: []string{h}, TCP: tc})
				}
			}
		}
	}
	// a probe interval below the probe timeout: the pending record expires while the prober still waits
	// for the direct ack
	for _, sc := range []int{0, 1} {
		for _, d := range []string{"none", "own@1", "own@i-", "own@i+", "own@pt-", "stale@1"} {
			for _, tc := range []string{"disabled", "refused", "ackown", "stall"} {
				run(c19Case{Indirect: 0, HelperPMax: 5, Score: sc, Direct: d, TCP: tc, IntervalMs: 120})
				for _, h := range []string{"silent", "ack@i-", "ack@i+"} {
					run(c19Case{Indirect: 1, HelperPMax: 5, Score: sc, Direct: d, Helpers: []string{h}, TCP: tc, IntervalMs: 120})
				}
			}
		}
	}
	// the sequence counter crosses 2^32: the numbers 2^32-1, 0 and 1 are numbers like any other
	for _, st := range []uint32{math.MaxUint32 - 1, math.MaxUint32, 1<<31 - 1} {
		for _, d := range []string{"none", "own@1", "own@pt+", "stale@1", "foreign@1", "own@i+"} {
			for _, tc := range []string{"disabled", "ackown", "ackwrong"} {
				run(c19Case{Indirect: 0, HelperPMax: 5, Score: 0, Direct: d, TCP: tc, SeqStart: st})
				for _, h := range []string{"nack", "ack@i-", "nackforeign"} {
					run(c19Case{Indirect: 1, HelperPMax: 5, Score: 0, Direct: d, Helpers: []string{h}, TCP: tc, SeqStart: st})
				}
			}
		}
	}
	// the target is already under suspicion: the ping travels in a compound with the suspect message
	for _, sc := range []int{0, 3} {
		for _, d := range []string{"none", "own@1", "own@pt+", "own@i+", "foreign@1"} {
			for _, tc := range []string{"disabled", "refused", "ackown"} {
				for _, se := range []string{"", "local", "remote"} {
					if se != "" && d != "none" {
						continue
					}
					run(c19Case{Indirect: 0, HelperPMax: 5, Score: sc, Direct: d, TCP: tc, PriorSusp: true, SendErr: se})
					run(c19Case{Indirect: 1, HelperPMax: 5, Score: sc, Direct: d, Helpers: []string{"nack"}, TCP: tc, PriorSusp: true, SendErr: se})
				}
			}
		}
	}
	type relayCell struct {
		nk    bool
		tg    string
		se    string
		score int
	}
	var relays []relayCell
	for _, nk := range []bool{false, true} {
		for _, tg := range []string{"never", "ack@1", "ack@pt-", "ack@pt+", "twice", "foreign", "foreign+own"} {
			relays = append(relays, relayCell{nk, tg, "", 0}, relayCell{nk, tg, "", 3})
		}
		// the relay's own transport refuses the ping to the target: nothing can come back
		relays = append(relays, relayCell{nk, "never", "local", 0}, relayCell{nk, "never", "remote", 0})
		// ... and an ack carrying the relay's fresh number arrives all the same (a guessable counter)
		relays = append(relays, relayCell{nk, "ack@1", "local", 0}, relayCell{nk, "twice", "remote", 3})
		// the relay's transport refuses its answer to the requester (relayed ack or nack)
		for _, tg := range []string{"never", "ack@1", "twice", "ack@pt+"} {
			relays = append(relays, relayCell{nk, tg, "reply-local", 0}, relayCell{nk, tg, "reply-remote", 3})
		}
	}
	for _, rc := range relays {
		{
			nk, tg := rc.nk, rc.tg
			idx++
			if !mine(idx) {
				continue
			}
			c := c19Relay{nk, tg, rc.se, rc.score}
			journal("C19 relay %v", c)
			sig, msg := c19RunRelay(t, c)
			rep.Transitions++
			rep.Evaluations++
			if sig != "" {
				rep.Violate(sig, msg, c19Replay{Relay: &c})
			} else {
				rep.Outcome(fmt.Sprintf("relay nack=%v %s %s ok", nk, tg, rc.se))
			}
		}
	}
	// the public Ping helper, with the usual and the inverted relation of interval and timeout
	for _, im := range [][2]int{{1000, 300}, {200, 1000}, {500, 500}} {
		for _, peer := range []string{"silent", "own@1", "own@late", "foreign", "third"} {
			idx++
			if !mine(idx) {
				continue
			}
			c := c19Ping{im[0], im[1], peer}
			journal("C19 ping %+v", c)
			sig, msg := c19RunPing(t, c)
			rep.Transitions++
			rep.Evaluations++
			if sig != "" {
				rep.Violate(sig, msg, c19Replay{Ping: &c})
			} else {
				rep.Outcome("ping-api ok")
			}
		}
	}
	if i, _ := shard(); i == 0 {
		if sig, msg := c19RunIdle(t); sig != "" {
			rep.Violate(sig, msg, nil)
		}
		rep.Transitions++
		// health object: all delta sequences to a fixpoint
		for _, mx := range []int{1, 2, 8} {
			seen := map[int]bool{0: true}
			frontier := []int{0}
			for len(frontier) > 0 {
				var next []int
				for _, sc := range frontier {
					for d := -3; d <= 3; d++ {
						a := ml.VNewAwareness(mx)
						a.ApplyDelta(sc)
						if a.GetHealthScore() != sc {
							rep.Violate("health-setup", fmt.Sprint(mx, sc), nil)
						}
						a.ApplyDelta(d)
						got := a.GetHealthScore()
						want := sc + d
						if want < 0 {
							want = 0
						}
						if want > mx-1 {
							want = mx - 1
						}
						rep.Transitions++
						if got != want || got < 0 || got > mx-1 {
							rep.Violate("health-clamp", fmt.Sprintf("max=%d score=%d delta=%d -> %d, reference %d", mx, sc, d, got, want), nil)
						}
						if a.ScaleTimeout(time.Second) != time.Duration(got+1)*time.Second {
							rep.Violate("health-scale", fmt.Sprint(mx, got), nil)
						}
						if !seen[got] {
							seen[got] = true
							next = append(next, got)
						}
					}
				}
				frontier = next
			}
			rep.States += len(seen)
		}
	}
	rep.States += len(rep.Outcomes)
	rep.Distinct = rep.States
	rep.Traces = rep.Evaluations
}
