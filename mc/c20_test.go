package mc

// C20 — lifecycle safety. (S) every sequence of public API calls and
// environment events up to a depth, on a real node with its REAL tickers
// running (schedule/deschedule are the subject) next to a real responsive
// peer, from every lifecycle stage; (T) lock-level interleavings of pairs and
// triples of API calls / handlers under a preemption bound (c20t_test.go);
// (race) the same bodies free-running under -race.

import (
	"fmt"
	"net"
	"strings"
	"testing"
	"time"

	ml "github.com/hashicorp/memberlist"
)

var c20Ops = []string{"join", "members", "localnode", "update", "leave", "shutdown", "sendbe", "sendrel", "ping", "tick", "reap", "peercrash", "accuse", "queries", "slowsync"}

type c20Replay struct {
	Ops []string `json:"ops"`
}

type c20World struct {
	b        *bubble
	p        *pair
	a, peer  *node
	shutdown bool
	left     bool
	peerDown bool
	sentAtSD int
	evLeaves int
}

// call runs f in its own goroutine and waits (in virtual time) up to limit.
func call(limit time.Duration, f func()) (panicked any, blocked bool) {
	done := make(chan any, 1)
	go func() {
		defer func() { done <- recover() }()
		f()
	}()
	settle()
	deadline := time.Now().Add(limit)
	for {
		select {
		case p := <-done:
			return p, false
		default:
		}
		if !time.Now().Before(deadline) {
			return nil, true
		}
		step := 100 * time.Millisecond
		if r := time.Until(deadline); r < step {
			step = r
		}
		time.Sleep(step)
		settle()
	}
}

func runC20Seq(t *testing.T, ops []string) (sig, msg string) {
	res := inBubble(t, func(b *bubble) {
		installDetRand()
		w := &c20World{b: b}
		l := lat{Enc: "off"}
		noProbe := len(ops) > 0 && ops[0] == "cfg:noprobe"
		w.p = newPairOpt(b, l, false, func(name string, c *ml.Config) {
			c.ProbeInterval = time.Second
			if noProbe {
				// failure detection switched off (ProbeInterval 0), gossip and push/pull still on
				c.ProbeInterval = 0
			}
			c.ProbeTimeout = 300 * time.Millisecond
			c.GossipInterval = 200 * time.Millisecond
			c.PushPullInterval = 7 * time.Second
			c.GossipToTheDeadTime = 5 * time.Second
			c.TCPTimeout = 2 * time.Second
			c.SuspicionMult = 3
			c.SuspicionMaxTimeoutMult = 1
		})
		w.a, w.peer = w.p.s, w.p.r
		a := w.a
		// two members that died just now: they age out in the same reaping pass as the node's own
		// departed record would
		for i, z := range []string{"z1", "z2"} {
			a.M.VAliveNode(&ml.VAlive{Incarnation: 1, Node: z, Addr: ip4(byte(120 + i)), Port: 7946, Vsn: defaultVsn}, nil, false)
			a.M.VDeadNode(&ml.VDead{Incarnation: 1, Node: z, From: "somebody"})
		}
		if noProbe {
			// the application always has something to gossip: background traffic never dries up by itself
			a.D.Chatter = []byte("chatter")
		}
		a.M.VSchedule() // the real tickers
		peerNode := func() *ml.Node { return w.p.nodeOf(w.peer) }
		fail := func(s, m string) {
			if sig == "" {
				sig, msg = s, fmt.Sprintf("ops=%v: %s", ops, m)
			}
		}
		for i, op := range ops {
			if sig != "" {
				break
			}
			ctx := fmt.Sprintf("op %d (%s)", i, op)
			var p any
			var blocked bool
			sentBefore := a.T.NumSent()
			switch op {
			case "cfg:noprobe":
			case "join":
				p, blocked = call(6*time.Second, func() { _, _ = a.M.Join([]string{string(w.peer.Addr)}) })
			case "members":
				p, blocked = call(0, func() { _ = a.M.Members(); _ = a.M.NumMembers() })
			case "localnode":
				p, blocked = call(0, func() {
					if n := a.M.LocalNode(); n == nil || n.Name != a.Name {
						panic(fmt.Sprintf("LocalNode returned %v", n))
					}
				})
			case "queries":
				p, blocked = call(0, func() { _ = a.M.GetHealthScore(); _ = a.M.ProtocolVersion() })
			case "update":
				a.D.SetMeta([]byte(fmt.Sprintf("m%d", i)))
				p, blocked = call(1500*time.Millisecond, func() { _ = a.M.UpdateNode(time.Second) })
			case "leave":
				evBefore := 0
				for _, e := range a.Ev.Log {
					if e.Kind == "leave" && e.Name == a.Name {
						evBefore++
					}
				}
				var err error
				start := time.Now()
				p, blocked = call(1500*time.Millisecond, func() { err = a.M.Leave(time.Second) })
				if w.shutdown {
					if p == nil {
						fail("leave-after-shutdown-did-not-panic", ctx)
					} else if !strings.Contains(fmt.Sprint(p), "leave after shutdown") {
						fail("unexpected-panic", fmt.Sprintf("%s: %v", ctx, p))
					}
					p = nil
				} else {
					if !blocked && p == nil && time.Since(start) > time.Second+50*time.Millisecond {
						fail("leave-blocked-past-timeout", fmt.Sprintf("%s returned after %v", ctx, time.Since(start)))
					}
					evAfter := 0
					for _, e := range a.Ev.Log {
						if e.Kind == "leave" && e.Name == a.Name {
							evAfter++
						}
					}
					if w.left {
						if err != nil || evAfter != evBefore {
							fail("second-leave-not-idempotent", fmt.Sprintf("%s: err=%v, %d new leave events", ctx, err, evAfter-evBefore))
						}
					}
					w.left = true
				}
			case "shutdown":
				var err error
				p, blocked = call(0, func() { err = a.M.Shutdown() })
				if err != nil {
					fail("shutdown-error", fmt.Sprintf("%s: %v", ctx, err))
				}
				if !a.T.shut {
					fail("transport-not-shut-down", ctx)
				}
				if !w.shutdown {
					w.shutdown = true
				} else if a.T.NumSent() != sentBefore {
					fail("second-shutdown-not-idempotent", ctx)
				}
				w.sentAtSD = a.T.NumSent()
			case "sendbe":
				p, blocked = call(0, func() { _ = a.M.SendBestEffort(peerNode(), []byte("x")) })
				if w.shutdown {
					w.sentAtSD = a.T.NumSent() // an explicit user call, not background activity
				}
			case "sendrel":
				p, blocked = call(5*time.Second, func() { _ = a.M.SendReliable(peerNode(), []byte("y")) })
			case "ping":
				p, blocked = call(time.Second, func() { _, _ = a.M.Ping(w.peer.Name, simTCPAddr{string(w.peer.Addr)}) })
				if w.shutdown {
					w.sentAtSD = a.T.NumSent()
				}
			case "tick":
				time.Sleep(1100 * time.Millisecond)
				settle()
			case "reap":
				time.Sleep(a.Cfg.GossipToTheDeadTime + 4*time.Second)
				settle()
			case "peercrash":
				if !w.peerDown {
					w.peerDown = true
					_ = w.peer.M.Shutdown()
					w.peer.T.OnSend = func(sentPkt) {}
				}
			case "slowsync":
				// environment: the peer starts a state exchange and this node's application takes 3 s to
				// produce its user state; whatever is called next must not have to wait for that
				if !w.peerDown && !w.shutdown {
					a.D.mu.Lock()
					a.D.LocalDelay = 3 * time.Second
					a.D.mu.Unlock()
					go func() { _ = w.peer.M.VPushPullNode(string(a.Addr), a.Name, false) }()
					time.Sleep(10 * time.Millisecond)
					settle()
				}
			case "accuse":
				s := a.M.VSnapshot()
				sm, _ := ml.VEncode(ml.VSuspectMsg, &ml.VSuspect{Incarnation: s.Incarnation, Node: a.Name, From: "somebody"}, false)
				a.T.Deliver(sm, w.peer.Addr)
				settle()
			}
			if p != nil {
				fail("panic:"+op, fmt.Sprintf("%s panicked: %v", ctx, p))
			}
			if blocked {
				fail("call-did-not-return:"+op, ctx+" is still blocked after its limit")
			}
			if w.shutdown && op != "sendbe" && op != "ping" && op != "sendrel" && op != "join" && op != "update" && op != "leave" {
				if n := a.T.NumSent(); n != w.sentAtSD {
					fail("traffic-after-shutdown", fmt.Sprintf("%s: %d packets handed to the transport after Shutdown returned", ctx, n-w.sentAtSD))
				}
			}
			if w.shutdown {
				w.sentAtSD = a.T.NumSent()
			}
		}
		// wind down: Shutdown (idempotent), then background activity must end within one
		// awareness-scaled probe interval (+ TCPTimeout for streams in flight)
		if _, bl := call(0, func() { _ = a.M.Shutdown() }); bl {
			fail("final-shutdown-blocked", "")
		}
		sent := a.T.NumSent()
		time.Sleep(time.Duration(a.M.GetHealthScore()+1)*a.Cfg.ProbeInterval + a.Cfg.TCPTimeout)
		settle()
		time.Sleep(10 * time.Second)
		settle()
		if n := a.T.NumSent(); n != sent {
			fail("traffic-after-shutdown", fmt.Sprintf("%d packets after the final Shutdown", n-sent))
		}
		if s := a.M.VSnapshot(); s.Tickers != 0 {
			fail("tickers-left-running", fmt.Sprint(s.Tickers))
		}
	})
	if res.Panic != nil && sig == "" {
		sig, msg = "panic", fmt.Sprintf("ops=%v: %v", ops, res.Panic)
	}
	if res.Leak && sig == "" {
		sig, msg = "goroutine-leak", fmt.Sprintf("ops=%v: goroutines of the node still blocked after Shutdown + one probe interval + TCPTimeout", ops)
	}
	return
}

// c20Stall: Shutdown while a probe's stream fallback is open towards a half-dead member (silent on
// packets, accepts the stream and never answers). All background activity - the probe, its stream -
// must be over within one awareness-scaled probe interval of Shutdown returning, however long the
// configured stream timeout is.
type c20Stall struct {
	TCPTimeoutS int `json:"tcp_timeout_s"`
	Score       int `json:"health_score"`
	ShutdownMs  int `json:"shutdown_ms_after_probe_start"`
	Indirect    int `json:"indirect_checks"`
}

func runC20Stall(t *testing.T, c c20Stall) (sig, msg string) {
	res := inBubble(t, func(b *bubble) {
		installDetRand()
		nd, err := newNode("o", ip4(1), func(cf *ml.Config) {
			cf.ProbeInterval = time.Second
			cf.ProbeTimeout = 300 * time.Millisecond
			cf.TCPTimeout = time.Duration(c.TCPTimeoutS) * time.Second
			cf.IndirectChecks = c.Indirect
		})
		must(err)
		o := b.track(nd)
		advance(time.Microsecond)
		o.M.VAliveNode(&ml.VAlive{Incarnation: 1, Node: "ghost", Addr: ip4(60), Port: 7946, Vsn: defaultVsn}, nil, false)
		o.M.VAliveNode(&ml.VAlive{Incarnation: 1, Node: "helper", Addr: ip4(61), Port: 7946, Vsn: defaultVsn}, nil, false)
		o.M.VApplyAwarenessDelta(c.Score)
		advance(time.Microsecond)
		var conns []*simConn
		o.T.OnDial = func(a ml.Address, d time.Duration) (net.Conn, error) {
			c1, c2 := simPipe(o.Addr, simAddr(a.Addr))
			b.conns = append(b.conns, c1, c2)
			conns = append(conns, c1)
			return c1, nil // accepted; the other end never reads and never writes
		}
		interval := time.Duration(c.Score+1) * time.Second
		probeDone := make(chan struct{})
		go func() { o.M.VProbeNodeByName("ghost"); close(probeDone) }()
		settle()
		time.Sleep(time.Duration(c.ShutdownMs) * time.Millisecond)
		settle()
		if _, bl := call(0, func() { _ = o.M.Shutdown() }); bl {
			sig, msg = "shutdown-blocked", fmt.Sprintf("%+v", c)
			return
		}
		sd := time.Now()
		time.Sleep(interval + time.Millisecond)
		settle()
		// what the probe in flight still hands to the (closed) transport during this interval reaches
		// no network; from here on there must be no activity at all
		sent := o.T.NumSent()
		select {
		case <-probeDone:
		default:
			sig, msg = "probe-outlives-shutdown", fmt.Sprintf("%+v: the probe started before Shutdown is still running %v after Shutdown returned (one scaled probe interval is %v)", c, time.Since(sd), interval)
			return
		}
		for i, cn := range conns {
			cn.mu.Lock()
			closed := cn.closed
			cn.mu.Unlock()
			if !closed {
				sig, msg = "stream-outlives-shutdown", fmt.Sprintf("%+v: stream %d opened by the probe is still open %v after Shutdown returned (one scaled probe interval is %v)", c, i, time.Since(sd), interval)
				return
			}
		}
		if len(conns) == 0 && c.ShutdownMs > 300 {
			sig, msg = "scenario-broken:no-fallback-stream", fmt.Sprintf("%+v", c)
			return
		}
		time.Sleep(40 * time.Second)
		settle()
		if n := o.T.NumSent(); n != sent {
			sig, msg = "traffic-after-shutdown", fmt.Sprintf("%+v: %d packets handed to the transport later than one scaled probe interval after Shutdown", c, n-sent)
		}
	})
	if res.Panic != nil && sig == "" {
		sig, msg = "panic", fmt.Sprintf("%+v: %v", c, res.Panic)
	}
	if res.Leak && sig == "" {
		sig, msg = "goroutine-leak", fmt.Sprintf("%+v", c)
	}
	return
}

type c20Replay2 struct {
	Stall *c20Stall `json:"stall"`
}

func TestC20(t *testing.T) {
	rep := newReport()
	defer rep.Write(t)
	var trp c20TReplay
	if loadReplay(&trp) && trp.Scenario != "" {
		for _, sc := range c20TScenarios() {
			if sc.Name == trp.Scenario {
				x := runT(t, sc, trp.Choices)
				t.Logf("replay: verdict=%q %s results=%s", x.Verdict, x.Msg, resultsStr(x.Results))
				if x.Verdict != "" {
					rep.Violate("T:"+sc.Name+":"+x.Verdict, x.Msg, trp)
				}
			}
		}
		rep.States, rep.Transitions = 1, len(trp.Choices)+1
		rep.Samples = append(rep.Samples, trp)
		return
	}
	var rp2 c20Replay2
	if loadReplay(&rp2) && rp2.Stall != nil {
		sig, msg := runC20Stall(t, *rp2.Stall)
		t.Logf("replay: %q %s", sig, msg)
		if sig != "" {
			rep.Violate(sig, msg, rp2)
		}
		rep.States, rep.Transitions = 1, 1
		rep.Samples = append(rep.Samples, rp2)
		return
	}
	var rp c20Replay
	if loadReplay(&rp) {
		sig, msg := runC20Seq(t, rp.Ops)
		t.Logf("replay: %q %s", sig, msg)
		if sig != "" {
			rep.Violate(sig, msg, rp)
		}
		rep.States, rep.Transitions = 1, len(rp.Ops)
		rep.Samples = append(rep.Samples, rp)
		return
	}
	depth := 3
	if thorough() {
		depth = 4
	}
	rep.Bounds = map[string]any{"ops": c20Ops, "depth": depth, "prefixes": "created | joined | joined+left | joined+left+reaped | joined+shutdown"}
	rep.Rule = "every sequence of <= depth operations (public API calls and environment events) appended to each lifecycle prefix, on a real node with its real tickers next to a real peer, each call bounded in virtual time; then Shutdown, one awareness-scaled probe interval + TCPTimeout, and the bubble must be able to exit; Engine T part: see c20t"
	rep.Assumptions = []string{"UpdateNode/Leave are called with finite timeouts (timeout 0 means wait forever by contract)", "explicit user sends after Shutdown are attempted against the closed transport and are not counted as background traffic"}
	prefixes := [][]string{nil, {"join"}, {"join", "leave"}, {"join", "leave", "reap"}, {"join", "shutdown"}, {"join", "peercrash", "tick"}}
	idx := 0
	seqs := 0
	var dfs func(prefix []string, ops []string)
	dfs = func(prefix, ops []string) {
		if len(ops) > 0 {
			if len(ops) == 1 || len(ops) == 2 {
				// sharded on the first two ops
			}
			full := append(append([]string(nil), prefix...), ops...)
			journal("C20 seq %v", full)
			sig, msg := runC20Seq(t, full)
			seqs++
			rep.Transitions += len(full)
			if sig != "" {
				rep.Violate(sig, msg, c20Replay{full})
				rep.Outcome("violation:" + sig)
				return
			}
			rep.Outcome("ok")
			if seqs%2000 == 1 {
				rep.Sample(full)
			}
		}
		if len(ops) >= depth {
			return
		}
		for _, o := range c20Ops {
			n := append(append([]string(nil), ops...), o)
			if len(n) == 2 || (depth == 1 && len(n) == 1) {
				idx++
				if !mine(idx) {
					continue
				}
			}
			// pure queries do not change the stage: do not extend them further (they were checked in place)
			if len(ops) > 0 && (ops[len(ops)-1] == "members" || ops[len(ops)-1] == "queries") && len(n) < depth {
				// still explore what follows a query once
			}
			dfs(prefix, n)
		}
	}
	for _, pf := range prefixes {
		dfs(pf, nil)
	}
	// the same node with failure detection switched off (ProbeInterval 0): shorter sequences
	saved := depth
	depth = 2
	for _, pf := range [][]string{{"cfg:noprobe"}, {"cfg:noprobe", "join"}, {"cfg:noprobe", "join", "leave"}} {
		dfs(pf, []string{"tick"})
	}
	depth = saved
	// ---- Shutdown while a probe's fallback stream is open towards a half-dead member
	for _, tt := range []int{2, 10, 30} {
		for _, sc := range []int{0, 2} {
			for _, ms := range []int{100, 400, 700, 950} {
				for _, ind := range []int{0, 1} {
					idx++
					if !mine(idx) {
						continue
					}
					c := c20Stall{TCPTimeoutS: tt, Score: sc, ShutdownMs: ms, Indirect: ind}
					journal("C20 stall %+v", c)
					sig, msg := runC20Stall(t, c)
					seqs++
					rep.Transitions++
					if sig != "" {
						rep.Violate("stall:"+sig, msg, c20Replay2{&c})
						rep.Outcome("violation:" + sig)
					} else {
						rep.Outcome("stall-ok")
					}
				}
			}
		}
	}
	// ---- Engine T part
	tb := 2
	if thorough() {
		tb = 3
	}
	rep.Bounds["T_preemption_bound"] = tb
	runC20T(t, rep, tb)
	rep.States = seqs
	rep.Traces = seqs
	rep.Evaluations = seqs
	rep.Distinct = seqs
}
