package mc

// C20, Engine T part: pairs and triples of lifecycle calls, queries, ticks,
// handlers and reaping on separate threads, all interleavings at lock/atomic
// granularity with a bounded number of preemptions.

import (
	"fmt"
	"io"
	"log"
	"strings"
	"sync"
	"testing"
	"time"

	ml "github.com/hashicorp/memberlist"
)

func tNode(b *bubble, opts ...nodeOpt) *node {
	installDetRand()
	all := append([]nodeOpt{func(c *ml.Config) {
		c.ProbeInterval = time.Second
		c.ProbeTimeout = 300 * time.Millisecond
		c.GossipInterval = 200 * time.Millisecond
		c.TCPTimeout = time.Second
		c.IndirectChecks = 0
		c.DisableTcpPings = true
		c.GossipToTheDeadTime = 2 * time.Second
	}}, opts...)
	n, err := newNode("o", ip4(1), all...)
	must(err)
	b.track(n)
	advance(time.Microsecond)
	n.M.VAliveNode(&ml.VAlive{Incarnation: 1, Node: "p", Addr: ip4(2), Port: 7946, Vsn: defaultVsn}, nil, false)
	advance(time.Microsecond)
	return n
}

func errStr(err error) string {
	if err == nil {
		return "nil"
	}
	return "err:" + err.Error()
}

func gossipThread(n *node, rounds int) tThread {
	return tThread{"gossip", func() string {
		for i := 0; i < rounds; i++ {
			time.Sleep(200 * time.Millisecond)
			n.M.VGossip()
		}
		return "ok"
	}}
}

func c20TScenarios() []tScenario {
	lifecycleFinish := func(n *node, allowLeavePanic bool) func(res map[string]string) (string, string, string) {
		return func(res map[string]string) (string, string, string) {
			for name, r := range res {
				if strings.HasPrefix(r, "PANIC:") {
					if allowLeavePanic && strings.HasPrefix(name, "leave") && strings.Contains(r, "leave after shutdown") {
						continue
					}
					return "panic:" + name, r, ""
				}
				if strings.HasPrefix(name, "shutdown") && r == "RETURNED-BEFORE-TRANSPORT-CLOSED" {
					return "shutdown-returned-while-node-still-up", name + " returned nil while the transport was still open", ""
				}
				if strings.HasPrefix(name, "shutdown") && r != "nil" {
					return "shutdown-error", r, ""
				}
			}
			if p := catch(func() { _ = n.M.Shutdown() }); p != nil {
				return "panic:final-shutdown", fmt.Sprint(p), ""
			}
			s := n.M.VSnapshot()
			if s.Tickers != 0 {
				return "tickers-left-running", fmt.Sprint(s.Tickers), ""
			}
			if !n.T.shut {
				return "transport-not-shut-down", "", ""
			}
			sent := n.T.NumSent()
			time.Sleep(5 * time.Second)
			settle()
			if n.T.NumSent() != sent {
				return "traffic-after-shutdown", fmt.Sprintf("%d packets", n.T.NumSent()-sent), ""
			}
			return "", "", resultsStr(res)
		}
	}
	shutdownT := func(n *node, name string) tThread {
		return tThread{name, func() string {
			err := n.M.Shutdown()
			// "once Shutdown returns ... the transport is closed first": judged at the moment of return
			if err == nil && !n.T.shut {
				return "RETURNED-BEFORE-TRANSPORT-CLOSED"
			}
			return errStr(err)
		}}
	}
	leaveT := func(n *node, name string) tThread {
		return tThread{name, func() string {
			start := time.Now()
			err := n.M.Leave(time.Second)
			if d := time.Since(start); d > time.Second+50*time.Millisecond {
				return fmt.Sprintf("LATE(%v) %s", d, errStr(err))
			}
			return errStr(err)
		}}
	}
	return []tScenario{
		{Name: "shutdown||shutdown", Build: func(b *bubble) ([]tThread, func(map[string]string) (string, string, string)) {
			n := tNode(b)
			return []tThread{shutdownT(n, "shutdown1"), shutdownT(n, "shutdown2")}, lifecycleFinish(n, false)
		}},
		{Name: "shutdown||shutdown (real tickers)", Build: func(b *bubble) ([]tThread, func(map[string]string) (string, string, string)) {
			n := tNode(b)
			n.M.VSchedule()
			return []tThread{shutdownT(n, "shutdown1"), shutdownT(n, "shutdown2")}, lifecycleFinish(n, false)
		}},
		{Name: "shutdown||leave||gossip", Build: func(b *bubble) ([]tThread, func(map[string]string) (string, string, string)) {
			n := tNode(b)
			return []tThread{shutdownT(n, "shutdown1"), leaveT(n, "leave1"), gossipThread(n, 3)}, lifecycleFinish(n, true)
		}, Horizon: 10 * time.Second, AllowLeaveAfterShutdown: true},
		{Name: "leave||leave||gossip", Build: func(b *bubble) ([]tThread, func(map[string]string) (string, string, string)) {
			n := tNode(b)
			fin := lifecycleFinish(n, false)
			return []tThread{leaveT(n, "leave1"), leaveT(n, "leave2"), gossipThread(n, 6)}, func(res map[string]string) (string, string, string) {
				for name, r := range res {
					if strings.HasPrefix(name, "leave") && strings.HasPrefix(r, "LATE") {
						return "leave-blocked-past-timeout", name + ": " + r, ""
					}
				}
				leaves := 0
				for _, e := range n.Ev.Log {
					if e.Kind == "leave" && e.Name == "o" {
						leaves++
					}
				}
				if leaves > 1 {
					return "leave-not-idempotent", fmt.Sprintf("%d leave events for self", leaves), ""
				}
				return fin(res)
			}
		}, Horizon: 10 * time.Second},
		{Name: "leave||gossip-burst (retransmit limit 1)", Build: func(b *bubble) ([]tThread, func(map[string]string) (string, string, string)) {
			n := tNode(b, func(c *ml.Config) { c.RetransmitMult = 1 })
			fin := lifecycleFinish(n, false)
			return []tThread{leaveT(n, "leave1"), {"gossip", func() string {
					for i := 0; i < 3; i++ {
						n.M.VGossip()
					}
					time.Sleep(300 * time.Millisecond)
					for i := 0; i < 3; i++ {
						n.M.VGossip()
					}
					return "ok"
				}}}, func(res map[string]string) (string, string, string) {
					// once the departure was handed to the transport its completion must wake Leave up:
					// needing the timeout here means Leave(0) would never return
					if sentDeparture(n) && res["leave1"] != "nil" {
						return "leave-missed-its-wakeup", fmt.Sprintf("the departure was sent but Leave returned %q", res["leave1"]), ""
					}
					return fin(res)
				}
		}, Horizon: 10 * time.Second},
		{Name: "shutdown||update||gossip", Build: func(b *bubble) ([]tThread, func(map[string]string) (string, string, string)) {
			n := tNode(b)
			return []tThread{shutdownT(n, "shutdown1"), {"update", func() string { n.D.SetMeta([]byte("new")); return errStr(n.M.UpdateNode(time.Second)) }}, gossipThread(n, 3)}, lifecycleFinish(n, false)
		}, Horizon: 10 * time.Second},
		{Name: "shutdown||queries", Build: func(b *bubble) ([]tThread, func(map[string]string) (string, string, string)) {
			n := tNode(b)
			return []tThread{shutdownT(n, "shutdown1"), {"queries", func() string {
				_ = n.M.Members()
				_ = n.M.NumMembers()
				ln := n.M.LocalNode()
				_ = n.M.GetHealthScore()
				return ln.Name
			}}}, lifecycleFinish(n, false)
		}},
		{Name: "shutdown||probe-tick||gossip-tick", Build: func(b *bubble) ([]tThread, func(map[string]string) (string, string, string)) {
			n := tNode(b)
			return []tThread{shutdownT(n, "shutdown1"), {"probe", func() string { n.M.VProbe(); return "ok" }}, {"gossip", func() string { n.M.VGossip(); return "ok" }}}, lifecycleFinish(n, false)
		}, Horizon: 10 * time.Second},
		{Name: "shutdown||incoming-alive", Build: func(b *bubble) ([]tThread, func(map[string]string) (string, string, string)) {
			n := tNode(b)
			buf, _ := ml.VEncode(ml.VAliveMsg, &ml.VAlive{Incarnation: 1, Node: "q", Addr: ip4(3), Port: 7946, Vsn: defaultVsn}, false)
			return []tThread{shutdownT(n, "shutdown1"), {"deliver", func() string { n.T.Deliver(buf, simAddr("10.0.0.2:7946")); return "ok" }}}, lifecycleFinish(n, false)
		}},
		{Name: "leave||reap||localnode", Build: func(b *bubble) ([]tThread, func(map[string]string) (string, string, string)) {
			n := tNode(b)
			return []tThread{leaveT(n, "leave1"), {"reap", func() string {
				time.Sleep(3 * time.Second)
				n.M.VResetNodes()
				n.M.VResetNodes()
				return "ok"
			}}, {"localnode", func() string {
				out := ""
				for i := 0; i < 3; i++ {
					time.Sleep(1500 * time.Millisecond)
					out += n.M.LocalNode().Name
				}
				return out
			}}, gossipThread(n, 4)}, lifecycleFinish(n, false)
		}, Horizon: 15 * time.Second},
		{Name: "join(refused)||shutdown", Build: func(b *bubble) ([]tThread, func(map[string]string) (string, string, string)) {
			n := tNode(b)
			return []tThread{{"join", func() string { _, err := n.M.Join([]string{"10.0.0.2:7946"}); return fmt.Sprint(err != nil) }}, shutdownT(n, "shutdown1")}, lifecycleFinish(n, false)
		}},
		{Name: "shutdown||send-reliable||send-best-effort||ping", Build: func(b *bubble) ([]tThread, func(map[string]string) (string, string, string)) {
			n := tNode(b)
			peer := &ml.Node{Name: "p", Addr: ip4(2), Port: 7946}
			return []tThread{shutdownT(n, "shutdown1"),
				{"reliable", func() string { return fmt.Sprint(n.M.SendReliable(peer, []byte("r")) != nil) }},
				{"besteffort", func() string { _ = n.M.SendBestEffort(peer, []byte("b")); return "ok" }},
				{"ping", func() string { _, err := n.M.Ping("p", simTCPAddr{"10.0.0.2:7946"}); return fmt.Sprint(err != nil) }},
			}, lifecycleFinish(n, false)
		}, Horizon: 10 * time.Second},
		{Name: "shutdown||inbound-tcp-ping||inbound-packet-ping", Build: func(b *bubble) ([]tThread, func(map[string]string) (string, string, string)) {
			n := tNode(b)
			pg, _ := ml.VEncode(ml.VPingMsg, &ml.VPing{SeqNo: 77, Node: "o", SourceAddr: ip4(2), SourcePort: 7946, SourceNode: "p"}, false)
			return []tThread{shutdownT(n, "shutdown1"),
				{"stream", func() string {
					c1, c2 := simPipe(simAddr("10.0.0.2:7946"), n.Addr)
					b.conns = append(b.conns, c1, c2)
					if !n.T.Accept(c2) {
						return "not-accepted"
					}
					_, _ = c1.Write(pg)
					_ = c1.SetReadDeadline(time.Now().Add(2 * time.Second))
					buf := make([]byte, 64)
					k, _ := c1.Read(buf)
					return fmt.Sprint(k > 0)
				}},
				{"packet", func() string { n.T.Deliver(pg, simAddr("10.0.0.2:7946")); return "ok" }},
			}, lifecycleFinish(n, false)
		}, Horizon: 10 * time.Second},
		{Name: "leave||join(refused)||members", Build: func(b *bubble) ([]tThread, func(map[string]string) (string, string, string)) {
			n := tNode(b)
			return []tThread{leaveT(n, "leave1"),
				{"join", func() string { _, err := n.M.Join([]string{"10.0.0.2:7946"}); return fmt.Sprint(err != nil) }},
				{"members", func() string { return fmt.Sprint(len(n.M.Members()) <= 2, n.M.NumMembers() <= 2) }},
				gossipThread(n, 4)}, lifecycleFinish(n, false)
		}, Horizon: 12 * time.Second},
		{Name: "late-confirmation||members||leave||gossip", Build: func(b *bubble) ([]tThread, func(map[string]string) (string, string, string)) {
			// five members, a suspicion of p that is 15 s old, and now a second accuser: with one confirmation
			// the deadline (about 11.4 s of at most 24 s) is already over, so the suspicion ends on the spot -
			// inside the handler that holds the node lock
			n := tNode(b, func(c *ml.Config) { c.SuspicionMult = 4 })
			for i, q := range []string{"q1", "q2", "q3"} {
				n.M.VAliveNode(&ml.VAlive{Incarnation: 1, Node: q, Addr: ip4(byte(30 + i)), Port: 7946, Vsn: defaultVsn}, nil, false)
			}
			advance(time.Microsecond)
			n.M.VSuspectNode(&ml.VSuspect{Incarnation: 1, Node: "p", From: "q1"})
			time.Sleep(15 * time.Second)
			fin := lifecycleFinish(n, false)
			return []tThread{
					{"confirm", func() string { n.M.VSuspectNode(&ml.VSuspect{Incarnation: 1, Node: "p", From: "q2"}); return "ok" }},
					{"members", func() string { return fmt.Sprint(len(n.M.Members()) >= 4) }},
					leaveT(n, "leave1"), gossipThread(n, 6)}, func(res map[string]string) (string, string, string) {
					if strings.HasPrefix(res["leave1"], "LATE") {
						return "leave-blocked-past-timeout", res["leave1"], ""
					}
					if listed(n, "p") {
						return "late-confirmation-did-not-end-suspicion", recStr(findRec(n.M.VSnapshot(), "p")), ""
					}
					return fin(res)
				}
		}, Horizon: 12 * time.Second},
		{Name: "leave||update||accusation||gossip", Build: func(b *bubble) ([]tThread, func(map[string]string) (string, string, string)) {
			n := tNode(b)
			own := n.M.VSnapshot().Incarnation
			return []tThread{leaveT(n, "leave1"), {"update", func() string { n.D.SetMeta([]byte("new")); return errStr(n.M.UpdateNode(time.Second)) }},
				{"accuse", func() string { n.M.VSuspectNode(&ml.VSuspect{Incarnation: own, Node: "o", From: "p"}); return "ok" }}, gossipThread(n, 6)}, lifecycleFinish(n, false)
		}, Horizon: 12 * time.Second},
	}
}

type c20TReplay struct {
	Scenario string `json:"scenario"`
	Choices  []int  `json:"choices"`
}

func runC20T(t *testing.T, rep *Report, bound int) {
	outcomes := map[string]bool{}
	for si, sc := range c20TScenarios() {
		b := bound
		if len(sc.Name) > 0 && strings.Count(sc.Name, "||") >= 3 && b > 1 {
			b = bound - 1
		}
		n := exploreT(t, rep, sc, b, si*100003, func(x tExec) {
			rep.Transitions += len(x.Choices)
			rep.AddExtra("schedules", 1)
			outcomes[sc.Name+"|"+x.Outcome] = true
			if x.Verdict != "" {
				rep.Violate("T:"+sc.Name+":"+x.Verdict, fmt.Sprintf("scenario %s: %s; thread results: %s; schedule %v", sc.Name, x.Msg, resultsStr(x.Results), x.Choices), c20TReplay{sc.Name, x.Choices})
				rep.Outcome("T-violation:" + x.Verdict)
			} else {
				rep.Outcome("T-ok:" + sc.Name)
			}
		})
		rep.Extra["T_schedules_"+sc.Name] = n
	}
	rep.AddExtra("T_distinct_outcomes", len(outcomes))
}

// TestC20Race: the same kinds of bodies, free-running under the race detector
// (sampling; reported as such), once over the simulated transport and once
// over the real NetTransport on loopback, outside any bubble.
func TestC20Race(t *testing.T) {
	rep := newReport()
	defer rep.Write(t)
	rep.Exhaustive = false
	rep.Rule = "free-running -race pass (sampling): Shutdown, Leave, UpdateNode, Members/LocalNode, incoming packets, probe/gossip ticks on concurrent goroutines; simulated transport x40, real NetTransport on loopback x4"
	runs := 40
	for r := 0; r < runs; r++ {
		n, err := newNode("o", ip4(1), func(c *ml.Config) {
			c.ProbeInterval = 20 * time.Millisecond
			c.ProbeTimeout = 5 * time.Millisecond
			c.GossipInterval = 5 * time.Millisecond
			c.GossipToTheDeadTime = 30 * time.Millisecond
		})
		if err != nil {
			t.Fatal(err)
		}
		n.M.VAliveNode(&ml.VAlive{Incarnation: 1, Node: "p", Addr: ip4(2), Port: 7946, Vsn: defaultVsn}, nil, false)
		n.M.VSchedule()
		var wg sync.WaitGroup
		run := func(f func()) {
			wg.Add(1)
			go func() {
				defer wg.Done()
				defer func() { _ = recover() }()
				f()
			}()
		}
		buf, _ := ml.VEncode(ml.VSuspectMsg, &ml.VSuspect{Incarnation: 1, Node: "o", From: "p"}, false)
		alive, _ := ml.VEncode(ml.VAliveMsg, &ml.VAlive{Incarnation: 2, Node: "q", Addr: ip4(3), Port: 7946, Vsn: defaultVsn}, false)
		run(func() {
			for i := 0; i < 20; i++ {
				n.T.Deliver(buf, simAddr("10.0.0.2:7946"))
				n.T.Deliver(alive, simAddr("10.0.0.2:7946"))
			}
		})
		run(func() {
			for i := 0; i < 50; i++ {
				_ = n.M.Members()
				_ = n.M.NumMembers()
				_ = n.M.LocalNode()
				_ = n.M.GetHealthScore()
			}
		})
		run(func() { _ = n.M.UpdateNode(20 * time.Millisecond) })
		run(func() { time.Sleep(time.Duration(r%5) * time.Millisecond); _ = n.M.Leave(20 * time.Millisecond) })
		run(func() { time.Sleep(time.Duration(r%7) * time.Millisecond); _ = n.M.Shutdown() })
		run(func() { time.Sleep(time.Duration(r%3) * time.Millisecond); _ = n.M.Shutdown() })
		wg.Wait()
		_ = n.M.Shutdown()
		rep.Evaluations++
	}
	// real NetTransport on loopback
	for r := 0; r < 4; r++ {
		mk := func(name string) *ml.Memberlist {
			c := ml.DefaultLocalConfig()
			c.Name = name
			c.BindAddr = "127.0.0.1"
			c.BindPort = 0
			c.AdvertisePort = 0
			c.Logger = log.New(io.Discard, "", 0)
			c.ProbeInterval = 30 * time.Millisecond
			c.ProbeTimeout = 10 * time.Millisecond
			c.GossipInterval = 10 * time.Millisecond
			m, err := ml.Create(c)
			if err != nil {
				t.Skipf("loopback sockets unavailable: %v", err)
			}
			return m
		}
		a, b := mk(fmt.Sprintf("ra%d", r)), mk(fmt.Sprintf("rb%d", r))
		_, _ = a.Join([]string{fmt.Sprintf("127.0.0.1:%d", b.LocalNode().Port)})
		var wg sync.WaitGroup
		for _, f := range []func(){
			func() { _ = a.UpdateNode(50 * time.Millisecond) },
			func() { _ = a.Members(); _ = b.Members() },
			func() { time.Sleep(20 * time.Millisecond); _ = a.Leave(50 * time.Millisecond) },
			func() { time.Sleep(40 * time.Millisecond); _ = b.Shutdown() },
			func() { time.Sleep(45 * time.Millisecond); _ = b.Shutdown() },
		} {
			f := f
			wg.Add(1)
			go func() { defer wg.Done(); defer func() { _ = recover() }(); f() }()
		}
		wg.Wait()
		_ = a.Shutdown()
		_ = b.Shutdown()
		rep.Evaluations++
	}
	rep.Extra["race_pass_runs"] = rep.Evaluations
	rep.Distinct = 2
	rep.Samples = append(rep.Samples, "Deliver(suspect about self, alive) || queries || UpdateNode || Leave || Shutdown || Shutdown with real tickers")
}
