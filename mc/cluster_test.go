package mc

// Engine N — deviation-bounded exploration of a small cluster of real nodes
// in one virtual-time bubble. The simulated network *is* the explorer: inside
// the fault window every packet's fate and every stream dial is a choice
// point with a default answer; all executions with 0, 1, (2) departures from
// the defaults are run to a fixed virtual horizon.

import (
	"container/heap"
	"fmt"
	"net"
	"os"
	"sort"
	"strings"
	"sync"
	"testing"
	"time"

	ml "github.com/hashicorp/memberlist"
)

// ---------------------------------------------------------------- choices

type choicePt struct {
	Kind string
	N    int // number of options
	Pick int
	Desc string
}

type chooser struct {
	prefix []int
	pts    []choicePt
	div    string // replay divergence
}

// choose returns the option for the next choice point (default 0 beyond the prefix).
func (c *chooser) choose(kind string, n int, desc string) int {
	i := len(c.pts)
	pick := 0
	if i < len(c.prefix) {
		pick = c.prefix[i]
		if pick >= n {
			c.div = fmt.Sprintf("choice %d: prefix wants option %d of %d (%s %s)", i, pick, n, kind, desc)
			pick = 0
		}
	}
	c.pts = append(c.pts, choicePt{kind, n, pick, desc})
	return pick
}

// descTime: instants in choice descriptions are rounded (readable replays) unless MC_EXACT is set.
func descTime(d time.Duration) time.Duration {
	if os.Getenv("MC_EXACT") != "" {
		return d
	}
	return d.Round(time.Millisecond)
}

// ---------------------------------------------------------------- event queue

type cevt struct {
	at  time.Time
	seq int
	fn  func()
	tag string
}
type evHeap []*cevt

func (h evHeap) Len() int { return len(h) }
func (h evHeap) Less(i, j int) bool {
	if !h[i].at.Equal(h[j].at) {
		return h[i].at.Before(h[j].at)
	}
	return h[i].seq < h[j].seq
}
func (h evHeap) Swap(i, j int) { h[i], h[j] = h[j], h[i] }
func (h *evHeap) Push(x any)   { *h = append(*h, x.(*cevt)) }
func (h *evHeap) Pop() any     { o := *h; x := o[len(o)-1]; *h = o[:len(o)-1]; return x }

// ---------------------------------------------------------------- cluster

type cnode struct {
	*node
	idx       int
	crashed   bool
	frozen    bool // crashed by freezing: streams are still accepted, never answered
	left      bool
	probeBusy bool
	probePend bool
	mu        sync.Mutex
	gen       int // instance generation (restarts)
	mon       *c07mon
}

type wireRec struct {
	At       time.Duration
	From, To string
	Leaves   []string // decoded leaf summaries
	Fate     string
}

type clusterCfg struct {
	N          int
	Opts       func(i int, c *ml.Config)
	L0         time.Duration // default latency
	LatAlt     []time.Duration
	AllowDrop  bool
	AllowDup   bool
	FaultFrom  time.Duration // fault window (offsets from start)
	FaultTo    time.Duration
	Horizon    time.Duration
	ProbePhase []time.Duration
	NoTicks    bool
	PushPull   time.Duration // 0 = use config PushPullInterval
	StreamAlt  bool          // stream dials are choice points (refuse) inside the window
	StreamCut  int           // > 0: a third answer to a dial: connected, then broken after this many bytes in each direction
	OnlyProto  bool          // only protocol packets (ping/ack/indirect/nack/suspect/alive/dead) are choice points
	Monitor    bool          // attach the C07 event monitor to every node
}

type cluster struct {
	t     *testing.T
	b     *bubble
	cfg   clusterCfg
	ch    *chooser
	nodes []*cnode
	byAdr map[string]*cnode
	q     evHeap
	seq   int
	t0    time.Time
	Wire  []wireRec
	part  func(from, to int) bool // true = blocked
	// StepCheck runs after every harness event (finer than any latency).
	StepCheck func(c *cluster) string
	stepFail  string
	stopped   bool
	pending   []pendPkt
	wake      chan struct{}
}

// pendPkt: a packet handed to the transport whose fate is decided by the
// harness at the same virtual instant, after quiescence, in an order that does
// not depend on which node's goroutine ran first.
type pendPkt struct {
	from *cnode
	p    sentPkt
	seq  int
}

func (c *cluster) since() time.Duration { return time.Since(c.t0) }

func (c *cluster) at(off time.Duration, tag string, fn func()) {
	c.seq++
	heap.Push(&c.q, &cevt{at: c.t0.Add(off), seq: c.seq, fn: fn, tag: tag})
}
func (c *cluster) after(d time.Duration, tag string, fn func()) { c.at(c.since()+d, tag, fn) }

func nodeName(i int) string { return fmt.Sprintf("n%d", i) }
func nodeIP(i int) net.IP   { return ip4(byte(i + 1)) }
func nodePort(i int) int    { return 7946 + i } // distinct ports: a port mix-up must not go unnoticed
func nodeAddr(i int) string { return fmt.Sprintf("10.0.0.%d:%d", i+1, nodePort(i)) }

func newCluster(t *testing.T, b *bubble, cfg clusterCfg, ch *chooser) *cluster {
	c := &cluster{t: t, b: b, cfg: cfg, ch: ch, byAdr: map[string]*cnode{}, t0: time.Now(), wake: make(chan struct{}, 1)}
	if c.cfg.L0 == 0 {
		c.cfg.L0 = time.Millisecond
	}
	installTimeRand()
	for i := 0; i < cfg.N; i++ {
		c.nodes = append(c.nodes, c.spawn(i, 0))
	}
	return c
}

func (c *cluster) spawn(i, gen int) *cnode {
	var mon *c07mon
	if c.cfg.Monitor {
		mon = &c07mon{set: map[string]string{}}
	}
	n, err := newNode(nodeName(i), nodeIP(i), func(cf *ml.Config) {
		cf.BindPort = nodePort(i)
		if mon != nil {
			cf.Events.(*eventRec).hook = mon.onEvent
		}
		cf.Delegate.(*delegateRec).Meta = []byte(fmt.Sprintf("meta-%d-g%d", i, gen))
		if c.cfg.Opts != nil {
			c.cfg.Opts(i, cf)
		}
		// The Go runtime deliberately randomises the firing order of bubble timers that are due at
		// exactly the same virtual instant. With round configuration values such ties are structural
		// (a 3 s suspicion started by a probe chain of exactly 1 s steps expires in the very nanosecond
		// in which a 500 ms nack timer started by the same chain does): both orders are legal, but
		// the choice is not ours to replay. Generic per-node values (a few hundred nanoseconds off
		// the round ones, as any real clock would make them) remove the ties.
		k := time.Duration(i + 1)
		cf.ProbeInterval += k * 1009 * time.Nanosecond
		cf.ProbeTimeout += k * 107 * time.Nanosecond
		cf.GossipInterval += k * 53 * time.Nanosecond
	})
	must(err)
	c.b.track(n)
	cn := &cnode{node: n, idx: i, gen: gen, mon: mon}
	if mon != nil {
		mon.m = n.M
	}
	c.byAdr[nodeAddr(i)] = cn
	n.T.OnSend = func(p sentPkt) { c.onSend(cn, p) }
	n.T.OnDial = func(a ml.Address, d time.Duration) (net.Conn, error) { return c.onDial(cn, a, d) }
	return cn
}

func summarize(buf []byte) []string {
	if rest, _, err := ml.RemoveLabelHeaderFromPacket(buf); err == nil {
		buf = rest
	}
	leaves, err := explode(buf)
	if err != nil {
		return []string{"?"}
	}
	var out []string
	for _, l := range leaves {
		switch l[0] {
		case ml.VPingMsg:
			out = append(out, "ping")
		case ml.VIndirectPingMsg:
			out = append(out, "indirect")
		case ml.VAckRespMsg:
			out = append(out, "ack")
		case ml.VNackRespMsg:
			out = append(out, "nack")
		case ml.VSuspectMsg:
			var s ml.VSuspect
			_ = ml.VDecode(l[1:], &s)
			out = append(out, fmt.Sprintf("suspect(%s,i%d,from=%s)", s.Node, s.Incarnation, s.From))
		case ml.VAliveMsg:
			var a ml.VAlive
			_ = ml.VDecode(l[1:], &a)
			out = append(out, fmt.Sprintf("alive(%s,i%d)", a.Node, a.Incarnation))
		case ml.VDeadMsg:
			var d ml.VDead
			_ = ml.VDecode(l[1:], &d)
			out = append(out, fmt.Sprintf("dead(%s,i%d,from=%s)", d.Node, d.Incarnation, d.From))
		case ml.VUserMsg:
			out = append(out, "user")
		default:
			out = append(out, fmt.Sprintf("type%d", l[0]))
		}
	}
	return out
}

func (c *cluster) inWindow() bool {
	s := c.since()
	return s >= c.cfg.FaultFrom && s < c.cfg.FaultTo
}

// onSend runs in a goroutine of the sending node: decide the packet's fate
// and schedule its delivery. It never blocks.
func (c *cluster) onSend(from *cnode, p sentPkt) {
	if c.stopped {
		return
	}
	c.pending = append(c.pending, pendPkt{from, p, len(c.pending)})
	select {
	case c.wake <- struct{}{}:
	default:
	}
}

// flush decides the fate of everything sent at this instant, in canonical order.
func (c *cluster) flush() {
	if len(c.pending) == 0 {
		return
	}
	ps := c.pending
	c.pending = nil
	sort.SliceStable(ps, func(i, j int) bool {
		if ps[i].from.idx != ps[j].from.idx {
			return ps[i].from.idx < ps[j].from.idx
		}
		return ps[i].seq < ps[j].seq
	})
	for _, pp := range ps {
		c.decide(pp.from, pp.p)
	}
}

func (c *cluster) decide(from *cnode, p sentPkt) {
	to := c.byAdr[p.To]
	rec := wireRec{At: c.since(), From: from.Name, To: p.To, Leaves: summarize(p.Buf), Fate: "deliver"}
	defer func() { c.Wire = append(c.Wire, rec) }()
	if from.crashed {
		rec.Fate = "sender-crashed"
		return
	}
	if to == nil {
		rec.Fate = "no-such-host"
		return
	}
	if c.part != nil && c.part(from.idx, to.idx) {
		rec.Fate = "partitioned"
		return
	}
	lat := c.cfg.L0 + time.Duration(to.idx+1)*7*time.Microsecond
	dup := false
	if c.inWindow() {
		var opts []string
		opts = append(opts, "deliver")
		for range c.cfg.LatAlt {
			opts = append(opts, "late")
		}
		if c.cfg.AllowDrop {
			opts = append(opts, "drop")
		}
		if c.cfg.AllowDup {
			opts = append(opts, "dup")
		}
		if len(opts) > 1 {
			k := c.ch.choose("packet", len(opts), fmt.Sprintf("%s->%s %v @%v", from.Name, to.Name, rec.Leaves, descTime(rec.At)))
			switch {
			case k == 0:
			case k <= len(c.cfg.LatAlt):
				lat = c.cfg.LatAlt[k-1] + time.Duration(to.idx+1)*7*time.Microsecond
				rec.Fate = fmt.Sprintf("late(%v)", c.cfg.LatAlt[k-1])
			case opts[k] == "drop":
				rec.Fate = "drop"
				return
			case opts[k] == "dup":
				dup = true
				rec.Fate = "dup"
			}
		}
	}
	gen := to.gen
	deliver := func() {
		cur := c.nodes[to.idx]
		if cur.crashed || cur.gen != gen {
			return
		}
		cur.T.Deliver(p.Buf, from.Addr)
	}
	c.after(lat, "deliver", deliver)
	if dup {
		c.after(lat+3*time.Millisecond, "deliver-dup", deliver)
	}
}

func (c *cluster) onDial(from *cnode, a ml.Address, d time.Duration) (net.Conn, error) {
	to := c.byAdr[a.Addr]
	refuse := func() (net.Conn, error) {
		return nil, &net.OpError{Op: "dial", Net: "tcp", Err: fmt.Errorf("connection refused")}
	}
	if to != nil && to.crashed && to.frozen && !c.stopped && !from.crashed {
		// a frozen host: the connection is accepted by its kernel but nobody ever answers
		c1, c2 := simPipe(from.Addr, to.Addr)
		c.b.conns = append(c.b.conns, c1, c2)
		return c1, nil
	}
	if c.stopped || from.crashed || to == nil || to.crashed || (c.part != nil && c.part(from.idx, to.idx)) {
		return refuse()
	}
	cut := 0
	if c.cfg.StreamAlt && c.inWindow() {
		n := 2
		if c.cfg.StreamCut > 0 {
			n = 3
		}
		switch c.ch.choose("dial", n, fmt.Sprintf("%s->%s @%v", from.Name, to.Name, descTime(c.since()))) {
		case 1:
			return refuse()
		case 2:
			cut = c.cfg.StreamCut // the connection is established and breaks after this many bytes each way
		}
	}
	c1, c2 := simPipe(from.Addr, to.Addr)
	c.b.conns = append(c.b.conns, c1, c2)
	if cut > 0 {
		c1.CutAfter(cut, false)
		c2.CutAfter(cut, false)
	}
	to.T.Accept(c2)
	return c1, nil
}

// ---- ticks (the harness is the ticker; reproduces triggerFunc's one-tick buffer)

func (c *cluster) runProbe(n *cnode, gen int) {
	n.mu.Lock()
	if n.probeBusy {
		n.probePend = true
		n.mu.Unlock()
		return
	}
	n.probeBusy = true
	n.mu.Unlock()
	go func() {
		for {
			n.M.VProbe()
			n.mu.Lock()
			if n.probePend && !n.crashed {
				n.probePend = false
				n.mu.Unlock()
				continue
			}
			n.probeBusy = false
			n.mu.Unlock()
			return
		}
	}()
}

func (c *cluster) startTicks(i int) {
	n := c.nodes[i]
	gen := n.gen
	alive := func() bool { return !c.stopped && c.nodes[i].gen == gen && !c.nodes[i].crashed }
	phase := time.Duration(i) * 37 * time.Microsecond
	if i < len(c.cfg.ProbePhase) {
		phase += c.cfg.ProbePhase[i]
	}
	var probeTick, gossipTick, ppTick func()
	probeTick = func() {
		if !alive() {
			return
		}
		c.runProbe(c.nodes[i], gen)
		// +1us: under virtual time a probe ends, and a suspicion started by it expires, at exact
		// multiples of the interval after a tick; a ticker on exactly the same grid would tie with
		// those timers at every tick (both orders are legal, but the runtime's choice is not ours
		// to replay). The drift keeps the ticker off that grid.
		c.after(n.Cfg.ProbeInterval+time.Microsecond, "probe-tick", probeTick)
	}
	gossipTick = func() {
		if !alive() {
			return
		}
		go c.nodes[i].M.VGossip()
		c.after(n.Cfg.GossipInterval+300*time.Nanosecond, "gossip-tick", gossipTick)
	}
	pp := n.Cfg.PushPullInterval
	if c.cfg.PushPull > 0 {
		pp = c.cfg.PushPull
	}
	ppTick = func() {
		if !alive() {
			return
		}
		go c.nodes[i].M.VPushPull()
		c.after(pp+1700*time.Nanosecond, "pushpull-tick", ppTick)
	}
	c.after(n.Cfg.ProbeInterval+phase, "probe-tick", probeTick)
	c.after(n.Cfg.GossipInterval+phase+211*time.Microsecond, "gossip-tick", gossipTick)
	if pp > 0 {
		c.after(pp+phase+time.Duration(i)*997*time.Millisecond, "pushpull-tick", ppTick)
	}
}

func (c *cluster) crash(i int) {
	n := c.nodes[i]
	n.mu.Lock()
	n.crashed = true
	n.mu.Unlock()
	_ = n.M.Shutdown()
}

func (c *cluster) restart(i int) {
	old := c.nodes[i]
	if !old.crashed {
		c.crash(i)
	}
	nn := c.spawn(i, old.gen+1)
	c.nodes[i] = nn
	if !c.cfg.NoTicks {
		c.startTicks(i)
	}
}

// run processes events until the horizon.
func (c *cluster) run() {
	end := c.t0.Add(c.cfg.Horizon)
	for c.q.Len() > 0 {
		if c.q[0].at.After(end) {
			break
		}
		// sleep until the next event, waking early whenever a node hands a packet to the transport
		for {
			d := time.Until(c.q[0].at)
			if d <= 0 {
				break
			}
			tm := time.NewTimer(d)
			select {
			case <-tm.C:
			case <-c.wake:
				tm.Stop()
			}
			settle()
			c.flush()
		}
		e := heap.Pop(&c.q).(*cevt)
		settle()
		c.flush()
		e.fn()
		settle()
		c.flush()
		if c.StepCheck != nil && c.stepFail == "" {
			if m := c.StepCheck(c); m != "" {
				c.stepFail = fmt.Sprintf("at %v after %s: %s", c.since().Round(time.Microsecond), e.tag, m)
			}
		}
	}
	if d := time.Until(end); d > 0 {
		time.Sleep(d)
	}
	settle()
	c.pending = nil
	c.stopped = true
}

func (c *cluster) live() []*cnode {
	var out []*cnode
	for _, n := range c.nodes {
		if !n.crashed && !n.left {
			out = append(out, n)
		}
	}
	return out
}

func (c *cluster) view(n *cnode) string {
	return strings.Join(memberNames(n.M), ",")
}

func (c *cluster) digest() string {
	var sb strings.Builder
	for _, n := range c.nodes {
		if n.crashed {
			fmt.Fprintf(&sb, "%s:crashed;", n.Name)
			continue
		}
		s := n.M.VSnapshot()
		fmt.Fprintf(&sb, "%s[", n.Name)
		for i := range s.Recs {
			r := &s.Recs[i]
			fmt.Fprintf(&sb, "%s:%s:i%d:%s,", r.Name, stateName(r.State), r.Incarnation, r.Meta)
		}
		fmt.Fprintf(&sb, "h%d];", s.Health)
	}
	return sb.String()
}

func wireStr(w []wireRec, max int) []string {
	var out []string
	for i, r := range w {
		if i >= max {
			out = append(out, "...")
			break
		}
		out = append(out, fmt.Sprintf("%v %s->%s %v %s", r.At.Round(time.Microsecond), r.From, r.To, r.Leaves, r.Fate))
	}
	return out
}

// ---------------------------------------------------------------- explorer

type nExec struct {
	Choices []int
	Pts     []choicePt
	Verdict string // "" ok
	Msg     string
	Digest  string
	Extra   map[string]any
}

// exploreN runs the deviation-bounded recursion. runOne executes one choice
// vector. cost(i,alt) is 1 per non-default choice.
func exploreN(rep *Report, bound int, shardIdx *int, runRaw func(prefix []int) nExec, onExec func(x nExec)) {
	// Determinism is measured, not assumed: a prefix that cannot be replayed is retried, then counted
	// (never reported as a violation); a violation is reported only if the full choice vector
	// reproduces it on 4 further runs.
	runOne := func(prefix []int) nExec {
		x := runRaw(prefix)
		for try := 0; try < 3 && x.Verdict == "replay-divergence"; try++ {
			x = runRaw(prefix)
		}
		if x.Verdict == "replay-divergence" {
			rep.AddExtra("replay_divergences", 1)
			rep.mu.Lock()
			rep.Exhaustive = false
			if len(rep.Notes) < 6 {
				rep.Notes = append(rep.Notes, fmt.Sprintf("replay divergence: %s; prefix %v; journal %s", x.Msg, prefix, lastJournal))
			}
			rep.mu.Unlock()
			x.Verdict, x.Msg = "", ""
			return x
		}
		if x.Verdict != "" {
			for i := 0; i < 4; i++ {
				y := runRaw(x.Choices)
				if y.Verdict != x.Verdict {
					rep.AddExtra("unreproducible_verdicts", 1)
					rep.mu.Lock()
					rep.Exhaustive = false
					rep.Notes = append(rep.Notes, "a verdict did not reproduce on replay and was not reported: "+x.Verdict)
					rep.mu.Unlock()
					x.Verdict, x.Msg = "", ""
					break
				}
			}
		}
		return x
	}
	var rec func(prefix []int, used int)
	rec = func(prefix []int, used int) {
		if rep.OverBudget() {
			return
		}
		x := runOne(prefix)
		onExec(x)
		if used >= bound {
			return
		}
		for i := len(prefix); i < len(x.Pts); i++ {
			for alt := 1; alt < x.Pts[i].N; alt++ {
				np := make([]int, i+1)
				copy(np, x.Choices[:i])
				np[i] = alt
				if used == 0 {
					// shard on the first deviation
					*shardIdx++
					if !mine(*shardIdx) {
						continue
					}
				}
				rec(np, used+1)
			}
		}
	}
	rec(nil, 0)
}

func devStr(pts []choicePt) []string {
	var out []string
	for i, p := range pts {
		if p.Pick != 0 {
			out = append(out, fmt.Sprintf("#%d %s option %d/%d: %s", i, p.Kind, p.Pick, p.N, p.Desc))
		}
	}
	return out
}

func sortedCopy(s []string) []string {
	o := append([]string(nil), s...)
	sort.Strings(o)
	return o
}
