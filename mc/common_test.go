package mc

// Shared plumbing for all checks: tier/shard environment, shard report, case
// journal (so a crash of the worker is attributed to the case it was running).

import (
	"crypto/sha1"
	"encoding/hex"
	"encoding/json"
	"fmt"
	"os"
	"runtime"
	"sort"
	"strconv"
	"strings"
	"sync"
	"sync/atomic"
	"syscall"
	"testing"
	"time"
)

type Violation struct {
	Sig    string `json:"sig"`
	Msg    string `json:"msg"`
	Replay any    `json:"replay"`
}

type Report struct {
	mu          sync.Mutex
	States      int            `json:"states,omitempty"`
	Transitions int            `json:"transitions,omitempty"`
	Traces      int            `json:"traces_validated_against_impl,omitempty"`
	Evaluations int            `json:"evaluations,omitempty"`
	Distinct    int            `json:"distinct_nontrivial,omitempty"`
	Outcomes    map[string]int `json:"outcomes"`
	Samples     []any          `json:"samples"`
	Violations  []Violation    `json:"violations"`
	Exhaustive  bool           `json:"exhaustive"`
	Rule        string         `json:"rule,omitempty"`
	Bounds      map[string]any `json:"bounds,omitempty"`
	Extra       map[string]any `json:"extra,omitempty"`
	Notes       []string       `json:"notes,omitempty"`
	Assumptions []string       `json:"assumptions,omitempty"`
	sigSeen     map[string]int
	start       time.Time
}

func newReport() *Report {
	return &Report{Samples: []any{}, Violations: []Violation{}, Outcomes: map[string]int{}, Bounds: map[string]any{}, Extra: map[string]any{}, sigSeen: map[string]int{}, Exhaustive: true, start: time.Now()}
}

func (r *Report) Outcome(k string) {
	r.mu.Lock()
	r.Outcomes[k]++
	r.mu.Unlock()
}

func (r *Report) Sample(s any) {
	r.mu.Lock()
	if len(r.Samples) < 6 {
		r.Samples = append(r.Samples, s)
	}
	r.mu.Unlock()
}

// Violate records a violation; at most 3 replays are kept per signature.
func (r *Report) Violate(sig, msg string, replay any) {
	r.mu.Lock()
	defer r.mu.Unlock()
	r.sigSeen[sig]++
	if r.sigSeen[sig] > 3 || len(r.Violations) > 200 {
		return
	}
	r.Violations = append(r.Violations, Violation{sig, msg, replay})
}

func (r *Report) NumViolations() int {
	r.mu.Lock()
	defer r.mu.Unlock()
	n := 0
	for _, c := range r.sigSeen {
		n += c
	}
	return n
}

func (r *Report) AddExtra(k string, n int) {
	r.mu.Lock()
	if v, ok := r.Extra[k].(int); ok {
		r.Extra[k] = v + n
	} else {
		r.Extra[k] = n
	}
	r.mu.Unlock()
}

func (r *Report) Write(t *testing.T) {
	r.mu.Lock()
	defer r.mu.Unlock()
	r.Extra["violation_signatures"] = len(r.sigSeen)
	out := os.Getenv("MC_OUT")
	b, err := json.MarshalIndent(r, "", " ")
	if err != nil {
		t.Fatalf("report marshal: %v", err)
	}
	if out == "" {
		// developer run: print a summary
		s := *r
		if len(s.Violations) > 5 {
			s.Violations = s.Violations[:5]
		}
		b, _ = json.MarshalIndent(&s, "", " ")
		fmt.Println(string(b))
		return
	}
	if err := os.WriteFile(out, b, 0o644); err != nil {
		t.Fatalf("report write: %v", err)
	}
}

func tier() string {
	if os.Getenv("MC_TIER") == "thorough" {
		return "thorough"
	}
	return "quick"
}
func thorough() bool { return tier() == "thorough" }

func shard() (int, int) {
	s := os.Getenv("MC_SHARD")
	if s == "" {
		return 0, 1
	}
	p := strings.Split(s, "/")
	i, _ := strconv.Atoi(p[0])
	n, _ := strconv.Atoi(p[1])
	if n < 1 {
		n = 1
	}
	return i, n
}

// mine reports whether case number idx belongs to this shard.
func mine(idx int) bool {
	i, n := shard()
	return idx%n == i
}

// budget returns the internal time budget (0 = none). A run that hits it ends
// with exhaustive=false and exit 0, never with a failure.
func budget() time.Duration {
	s, _ := strconv.Atoi(os.Getenv("MC_BUDGET_S"))
	return time.Duration(s) * time.Second
}

// budgetOver is set by the watchdog goroutine (real clock, outside any bubble): inside a synctest
// bubble time.Since would compare a virtual instant with the real start time.
var budgetOver atomic.Bool
var procStart = time.Now()

func (r *Report) OverBudget() bool {
	b := budget()
	if b > 0 && (budgetOver.Load() || time.Since(r.start) > b) {
		r.mu.Lock()
		if r.Exhaustive {
			r.Exhaustive = false
			r.Notes = append(r.Notes, fmt.Sprintf("internal time budget of %v reached; coverage below is what completed", b))
		}
		r.mu.Unlock()
		return true
	}
	return false
}

// Incomplete records that part of the space was not covered (a cap was hit).
func (r *Report) Incomplete(note string) {
	r.mu.Lock()
	r.Exhaustive = false
	r.Notes = append(r.Notes, note)
	r.mu.Unlock()
}

var journalF *os.File
var journalN int
var progressN atomic.Int64

// watchdog: a case that makes no progress for a long REAL time has hung (e.g. a
// goroutine of the node deadlocked on a real mutex, which virtual time cannot
// see). The worker exits; the driver attributes the hang to the journalled case.
// journal() may run inside a synctest bubble where time.Now() is virtual, so
// progress is a counter and only this goroutine (outside any bubble) looks at
// the real clock.
func init() {
	limit := 180 * time.Second
	if v, err := strconv.Atoi(os.Getenv("MC_WATCHDOG_S")); err == nil && v > 0 {
		limit = time.Duration(v) * time.Second
	}
	go func() {
		last := progressN.Load()
		since := time.Now()
		for {
			time.Sleep(2 * time.Second)
			if b := budget(); b > 0 && time.Since(procStart) > b {
				budgetOver.Store(true)
			}
			if os.Getenv("MC_JOURNAL") == "" {
				continue
			}
			if n := progressN.Load(); n != last {
				last, since = n, time.Now()
				continue
			}
			if d := time.Since(since); d > limit {
				fmt.Fprintf(os.Stderr, "\nWATCHDOG: no progress for %v: the current case hangs\n", d.Round(time.Second))
				buf := make([]byte, 1<<20)
				n := runtime.Stack(buf, true)
				os.Stderr.Write(buf[:min(n, 60000)])
				os.Exit(3)
			}
		}
	}()
}

// journal records the case about to run in a memory-mapped file: a store, not a
// system call, and the content survives a crash of the process.
var journalMap []byte
var lastJournal string

func journal(format string, a ...any) {
	progressN.Add(1)
	if journalMap == nil {
		p := os.Getenv("MC_JOURNAL")
		if p == "" {
			return
		}
		f, err := os.OpenFile(p, os.O_CREATE|os.O_RDWR|os.O_TRUNC, 0o644)
		if err != nil {
			return
		}
		if err := f.Truncate(4096); err != nil {
			return
		}
		m, err := syscall.Mmap(int(f.Fd()), 0, 4096, syscall.PROT_READ|syscall.PROT_WRITE, syscall.MAP_SHARED)
		if err != nil {
			return
		}
		journalF = f
		journalMap = m
	}
	s := fmt.Sprintf(format, a...)
	if len(s) > 4000 {
		s = s[:4000]
	}
	lastJournal = s
	n := copy(journalMap, s)
	for i := n; i < journalN && i < len(journalMap); i++ {
		journalMap[i] = ' '
	}
	if n < len(journalMap) {
		journalMap[n] = '\n'
	}
	if n > journalN {
		journalN = n
	}
}

// journalTick only feeds the watchdog (for hot loops over pure objects whose
// panics are recovered in place).
func journalTick() { progressN.Add(1) }

func loadReplay(v any) bool {
	p := os.Getenv("MC_REPLAY")
	if p == "" {
		return false
	}
	b, err := os.ReadFile(p)
	if err != nil {
		panic(err)
	}
	var w struct {
		Replay json.RawMessage `json:"replay"`
	}
	if err := json.Unmarshal(b, &w); err != nil {
		panic(err)
	}
	if err := json.Unmarshal(w.Replay, v); err != nil {
		panic(err)
	}
	return true
}

func hashOf(parts ...any) string {
	h := sha1.New()
	for _, p := range parts {
		fmt.Fprintf(h, "%v|", p)
	}
	return hex.EncodeToString(h.Sum(nil))[:16]
}

func sortedKeys[V any](m map[string]V) []string {
	ks := make([]string, 0, len(m))
	for k := range m {
		ks = append(ks, k)
	}
	sort.Strings(ks)
	return ks
}

// catch runs f and returns the recovered panic value (nil if none).
func catch(f func()) (p any) {
	defer func() {
		if r := recover(); r != nil {
			p = r
		}
	}()
	f()
	return nil
}
