package mc

// Engine W plumbing: a real sender and a real receiver wired through the
// simulated transport, a configuration lattice, and layer peeling.

import (
	"bytes"
	"encoding/binary"
	"fmt"
	"hash/crc32"
	"net"
	"strings"
	"time"

	ml "github.com/hashicorp/memberlist"
)

type lat struct {
	Enc      string // off v0 v1
	KeyLen   int
	Comp     bool
	Label    string
	PeerPMax uint8 // 4 or 5: whether peers are known to understand the checksum header
	NewTime  bool
	IPNames  bool // node names are bare IPs (so address->node lookup on the send path works)
	NoVerOut bool // GossipVerifyOutgoing=false
	NoVerIn  bool // GossipVerifyIncoming=false
	UDPBuf   int
	LateKey  bool // keyring configured empty at creation; the key is installed afterwards
	Frag     int  `json:",omitempty"` // > 0: every stream read returns at most this many bytes
	Plain    bool `json:",omitempty"` // the application's transport implements only memberlist.Transport (not node-aware): the library's shim and the label wrapper's plain entry points carry the traffic
	ReqNames bool `json:",omitempty"` // RequireNodeNames: every send must name its recipient
	Rollout  bool `json:",omitempty"` // roll-out stage: the receiver already has a key (verification of incoming and outgoing traffic off), the sender has none yet
}

func (l lat) String() string {
	lb := "none"
	if l.Label != "" {
		lb = fmt.Sprintf("%dB", len(l.Label))
	}
	fr := ""
	if l.Rollout {
		fr = " receiver-has-key-sender-plaintext"
	}
	if l.Frag > 0 {
		fr = fmt.Sprintf(" stream-reads<=%dB", l.Frag)
	}
	if l.Plain {
		fr += " plain-transport"
	}
	if l.ReqNames {
		fr += " require-node-names"
	}
	return fmt.Sprintf("enc=%s/%d comp=%v label=%s pmax=%d newtime=%v ipnames=%v verout=%v verin=%v buf=%d latekey=%v%s", l.Enc, l.KeyLen, l.Comp, lb, l.PeerPMax, l.NewTime, l.IPNames, !l.NoVerOut, !l.NoVerIn, l.UDPBuf, l.LateKey, fr)
}

func latKey(n int) []byte { return bytes.Repeat([]byte{0x5a}, n) }

func (l lat) apply(c *ml.Config) {
	c.EnableCompression = l.Comp
	c.Label = l.Label
	c.MsgpackUseNewTimeFormat = l.NewTime
	c.RequireNodeNames = l.ReqNames
	if l.Enc != "off" {
		kr, err := ml.NewKeyring(nil, latKey(l.KeyLen))
		if l.LateKey {
			kr, err = ml.NewKeyring(nil, nil)
		}
		must(err)
		c.Keyring = kr
		if l.Enc == "v0" {
			c.ProtocolVersion = 1
		}
	}
	c.GossipVerifyOutgoing = !l.NoVerOut
	c.GossipVerifyIncoming = !l.NoVerIn
	if l.UDPBuf > 0 {
		c.UDPBufferSize = l.UDPBuf
	}
}

func (l lat) encVsn() uint8 {
	if l.Enc == "v0" {
		return 0
	}
	return 1
}

type tapRec struct {
	From, To string
	Buf      []byte
	Stream   bool
}

type pair struct {
	OuterLayer bool // label headers are stripped by the harness before delivery (SkipInboundLabelCheck deployments)
	s, r       *node
	l          lat
	Tap        []tapRec
	// Streams: bytes written by each side of each dialled stream
	StreamsS2R [][]byte
	StreamsR2S [][]byte
	// hooks
	MutatePkt func(from *node, buf []byte) []byte // nil result = drop
	OnPipe    func(c1, c2 *simConn)
}

func pairNames(l lat) (string, string) {
	if l.IPNames {
		return "10.0.0.1", "10.0.0.2"
	}
	return "s", "r"
}

func newPair(b *bubble, l lat, more ...func(name string, c *ml.Config)) *pair {
	return newPairOpt(b, l, true, more...)
}

// newPairOpt: intro=false leaves the two nodes unaware of each other (for Join).
func newPairOpt(b *bubble, l lat, intro bool, more ...func(name string, c *ml.Config)) *pair {
	p := &pair{l: l}
	sn, rn := pairNames(l)
	mk := func(name string, ip net.IP) *node {
		n, err := newNode(name, ip, func(c *ml.Config) {
			l.apply(c)
			for _, f := range more {
				f(name, c)
			}
			if l.Plain {
				withPlainTransport(c)
			}
		})
		must(err)
		return b.track(n)
	}
	p.s = mk(sn, ip4(1))
	p.r = mk(rn, ip4(2))
	if l.LateKey && l.Enc != "off" {
		must(p.s.Cfg.Keyring.AddKey(latKey(l.KeyLen)))
		must(p.r.Cfg.Keyring.AddKey(latKey(l.KeyLen)))
	}
	p.wire(b, p.s, p.r)
	p.wire(b, p.r, p.s)
	advance(time.Microsecond)
	pm := l.PeerPMax
	if pm == 0 {
		pm = 5
	}
	if !intro {
		p.drainQueues()
		return p
	}
	// introduce them to each other (peer's version vector as advertised, with the chosen max)
	intro2 := func(a, bn *node, ip net.IP) {
		v := bn.Cfg.BuildVsnArray()
		v[1] = pm
		a.M.VAliveNode(&ml.VAlive{Incarnation: 1, Node: bn.Name, Addr: ip, Port: 7946, Meta: nil, Vsn: v}, nil, false)
	}
	intro2(p.s, p.r, ip4(2))
	intro2(p.r, p.s, ip4(1))
	advance(time.Microsecond)
	p.drainQueues()
	p.Tap = nil
	p.s.T.TakeSent()
	p.r.T.TakeSent()
	return p
}

func (p *pair) drainQueues() {
	for _, n := range []*node{p.s, p.r} {
		n.M.VBroadcasts().Reset()
	}
}

func (p *pair) wire(b *bubble, from, to *node) {
	from.T.OnSend = func(pk sentPkt) {
		p.Tap = append(p.Tap, tapRec{From: from.Name, To: pk.To, Buf: pk.Buf})
		if pk.To != string(to.Addr) {
			return
		}
		buf := pk.Buf
		if p.MutatePkt != nil {
			buf = p.MutatePkt(from, buf)
			if buf == nil {
				return
			}
		}
		if p.OuterLayer {
			// the deployment SkipInboundLabelCheck is made for: an outer layer strips the label header
			rest, _, err := ml.RemoveLabelHeaderFromPacket(buf)
			if err != nil {
				return
			}
			buf = rest
		}
		to.T.Deliver(buf, from.Addr)
	}
	from.T.OnDial = func(a ml.Address, d time.Duration) (net.Conn, error) {
		if a.Addr != string(to.Addr) {
			return nil, &net.OpError{Op: "dial", Net: "tcp", Err: fmt.Errorf("no route to %s", a.Addr)}
		}
		c1, c2 := simPipe(from.Addr, to.Addr)
		b.conns = append(b.conns, c1, c2)
		var fwd, back *[][]byte
		if from == p.s {
			p.StreamsS2R = append(p.StreamsS2R, nil)
			p.StreamsR2S = append(p.StreamsR2S, nil)
			fwd, back = &p.StreamsS2R, &p.StreamsR2S
		} else {
			p.StreamsR2S = append(p.StreamsR2S, nil)
			p.StreamsS2R = append(p.StreamsS2R, nil)
			fwd, back = &p.StreamsR2S, &p.StreamsS2R
		}
		idx := len(*fwd) - 1
		c1.onWrite = func(bs []byte) { (*fwd)[idx] = append((*fwd)[idx], bs...) }
		c2.onWrite = func(bs []byte) { (*back)[idx] = append((*back)[idx], bs...) }
		if p.OnPipe != nil {
			p.OnPipe(c1, c2)
		}
		if p.OuterLayer {
			go func() {
				if c, _, err := ml.RemoveLabelHeaderFromStream(c2); err == nil {
					to.T.Accept(c)
				}
			}()
			return c1, nil
		}
		to.T.Accept(c2)
		return c1, nil
	}
}

func (p *pair) nodeOf(n *node) *ml.Node {
	return &ml.Node{Name: n.Name, Addr: net.ParseIP(strings.Split(string(n.Addr), ":")[0]).To4(), Port: 7946, PMax: p.peerPMax(), PMin: 1, PCur: n.Cfg.ProtocolVersion}
}
func (p *pair) peerPMax() uint8 {
	if p.l.PeerPMax == 0 {
		return 5
	}
	return p.l.PeerPMax
}

// ---------------------------------------------------------------- peeling

type peeled struct {
	Label     string
	Encrypted bool
	EncVsn    uint8
	HadCRC    bool
	Compress  bool
	Plain     []byte // innermost message (type byte first)
}

// peelPacket undoes label -> encryption -> checksum -> compression with the
// hook's codecs, independently of the receiver's ingest path.
func peelPacket(buf []byte, keys [][]byte) (*peeled, error) {
	out := &peeled{}
	rest, label, err := ml.RemoveLabelHeaderFromPacket(buf)
	if err != nil {
		return nil, fmt.Errorf("label: %w", err)
	}
	out.Label = label
	if len(keys) > 0 {
		if len(rest) == 0 {
			return nil, fmt.Errorf("empty ciphertext")
		}
		out.EncVsn = rest[0]
		plain, err := ml.VDecryptPayload(keys, append([]byte(nil), rest...), []byte(label))
		if err != nil {
			return nil, fmt.Errorf("decrypt: %w", err)
		}
		out.Encrypted = true
		rest = plain
	}
	if len(rest) >= 5 && rest[0] == ml.VHasCrcMsg {
		if crc32.ChecksumIEEE(rest[5:]) != binary.BigEndian.Uint32(rest[1:5]) {
			return nil, fmt.Errorf("crc mismatch")
		}
		out.HadCRC = true
		rest = rest[5:]
	}
	if len(rest) > 0 && rest[0] == ml.VCompressMsg {
		d, err := ml.VDecompressPayload(rest[1:])
		if err != nil {
			return nil, fmt.Errorf("decompress: %w", err)
		}
		out.Compress = true
		rest = d
	}
	out.Plain = rest
	return out, nil
}

// peelStream parses everything one side wrote on a stream: optional label
// header, then one or more frames (encrypted: encryptMsg|len|ciphertext).
func peelStream(buf []byte, keys [][]byte, encrypted bool, implicitLabel ...string) (label string, frames [][]byte, err error) {
	rest := buf
	if len(implicitLabel) > 0 {
		// the accepting side of a stream writes no label header but still
		// authenticates with its label
		label = implicitLabel[0]
	}
	if len(rest) > 0 && rest[0] == ml.VHasLabelMsg {
		if len(rest) < 2 || len(rest) < 2+int(rest[1]) {
			return "", nil, fmt.Errorf("truncated label header")
		}
		label = string(rest[2 : 2+int(rest[1])])
		rest = rest[2+int(rest[1]):]
	}
	if !encrypted {
		return label, [][]byte{rest}, nil
	}
	for len(rest) > 0 {
		if rest[0] != ml.VEncryptMsg {
			return label, frames, fmt.Errorf("clear byte 0x%02x at a frame boundary (%d bytes left)", rest[0], len(rest))
		}
		if len(rest) < 5 {
			return label, frames, fmt.Errorf("truncated frame header")
		}
		n := int(binary.BigEndian.Uint32(rest[1:5]))
		if len(rest) < 5+n {
			return label, frames, fmt.Errorf("truncated frame: need %d have %d", n, len(rest)-5)
		}
		aad := append(append([]byte(nil), rest[:5]...), []byte(label)...)
		plain, err := ml.VDecryptPayload(keys, append([]byte(nil), rest[5:5+n]...), aad)
		if err != nil {
			return label, frames, fmt.Errorf("frame does not open: %w", err)
		}
		frames = append(frames, plain)
		rest = rest[5+n:]
	}
	return label, frames, nil
}

// unwrapStreamFrame undoes compression of a stream frame.
func unwrapStreamFrame(f []byte) ([]byte, error) {
	if len(f) > 0 && f[0] == ml.VCompressMsg {
		return ml.VDecompressPayload(f[1:])
	}
	return f, nil
}
