package mc

// Simulated transport, buffered duplex stream, recorders and node factory.
// Everything here lives inside a synctest bubble: time is virtual, the harness
// goroutine is the only source of events.

import (
	"bytes"
	"errors"
	"fmt"
	"io"
	"log"
	"net"
	"os"
	"sort"
	"strings"
	"sync"
	"testing"
	"testing/synctest"
	"time"

	ml "github.com/hashicorp/memberlist"
	"github.com/hashicorp/memberlist/vshim/vsched"
)

// ---------------------------------------------------------------- addresses

type simAddr string

func (a simAddr) Network() string { return "udp" }
func (a simAddr) String() string  { return string(a) }

// ---------------------------------------------------------------- streams

var errTimeout = &timeoutErr{}

type timeoutErr struct{}

func (*timeoutErr) Error() string   { return "i/o timeout" }
func (*timeoutErr) Timeout() bool   { return true }
func (*timeoutErr) Temporary() bool { return true }

// half is one direction of a duplex stream.
type half struct {
	mu       sync.Mutex
	buf      []byte
	eof      bool          // writer closed (reader sees EOF after draining)
	sig      chan struct{} // signalled on data/close
	written  int           // bytes accepted from the writer
	limit    int           // -1 = none; bytes delivered before the cut
	stall    bool          // at the limit: true = silently drop the rest, false = close
	cutHit   bool
	onCutHit func()
}

func newHalf() *half { return &half{sig: make(chan struct{}, 1), limit: -1} }

func (h *half) signal() {
	select {
	case h.sig <- struct{}{}:
	default:
	}
}

// Environment answers for every simulated stream of the current execution (the workers run one
// execution at a time): simFrag > 0 = every Read returns at most that many bytes; simShortWrite > 0 =
// every Write accepts at most that many bytes and returns (n < len, nil).
var simFrag, simShortWrite int

// simDeadlineErr: every SetDeadline/SetReadDeadline/SetWriteDeadline on a simulated stream is refused
// with an error and arms nothing (a custom transport's stream, or a socket the peer has already reset).
var simDeadlineErr bool
var errDeadlineRefused = errors.New("set deadline: use of closed network connection")

// simConn is one end of a buffered duplex stream (TCP-like: writes never block
// on the reader).
type simConn struct {
	r, w          *half
	local, remote simAddr
	mu            sync.Mutex
	closed        bool
	closeCh       chan struct{}
	rdl, wdl      time.Time
	peer          *simConn
	ReadBytes     int
	Deadlines     int
	onWrite       func(b []byte)
}

func simPipe(a, b simAddr) (*simConn, *simConn) {
	ab, ba := newHalf(), newHalf()
	c1 := &simConn{r: ba, w: ab, local: a, remote: b, closeCh: make(chan struct{})}
	c2 := &simConn{r: ab, w: ba, local: b, remote: a, closeCh: make(chan struct{})}
	c1.peer, c2.peer = c2, c1
	return c1, c2
}

func (c *simConn) Read(p []byte) (int, error) {
	for {
		c.mu.Lock()
		closed, dl := c.closed, c.rdl
		c.mu.Unlock()
		if closed {
			return 0, io.ErrClosedPipe
		}
		c.r.mu.Lock()
		if len(c.r.buf) > 0 {
			if simFrag > 0 && len(p) > simFrag {
				p = p[:simFrag] // the network hands the bytes over in small fragments
			}
			n := copy(p, c.r.buf)
			c.r.buf = c.r.buf[n:]
			c.r.mu.Unlock()
			c.mu.Lock()
			c.ReadBytes += n
			c.mu.Unlock()
			return n, nil
		}
		eof := c.r.eof
		c.r.mu.Unlock()
		if eof {
			return 0, io.EOF
		}
		var tc <-chan time.Time
		var tm *time.Timer
		if !dl.IsZero() {
			d := time.Until(dl)
			if d <= 0 {
				return 0, errTimeout
			}
			tm = time.NewTimer(d)
			tc = tm.C
		}
		select {
		case <-c.r.sig:
		case <-c.closeCh:
		case <-tc:
		}
		if tm != nil {
			tm.Stop()
		}
	}
}

func (c *simConn) Write(p []byte) (int, error) {
	c.mu.Lock()
	closed, dl := c.closed, c.wdl
	ow := c.onWrite
	c.mu.Unlock()
	if closed {
		return 0, io.ErrClosedPipe
	}
	if !dl.IsZero() && time.Until(dl) <= 0 {
		return 0, errTimeout
	}
	if simShortWrite > 0 && len(p) > simShortWrite {
		// a conn that takes only part of the buffer and reports no error (some custom transports do)
		p = p[:simShortWrite]
	}
	if ow != nil {
		ow(p)
	}
	h := c.w
	h.mu.Lock()
	defer h.mu.Unlock()
	if h.eof && !h.cutHit {
		return 0, errors.New("write: broken pipe")
	}
	data := p
	if h.limit >= 0 {
		room := h.limit - h.written
		if room < 0 {
			room = 0
		}
		if len(data) > room {
			data = data[:room]
			if !h.cutHit {
				h.cutHit = true
				if !h.stall {
					h.eof = true
				}
				if h.onCutHit != nil {
					defer h.onCutHit()
				}
			}
		}
	}
	h.written += len(p)
	if len(data) > 0 {
		h.buf = append(h.buf, data...)
	}
	h.signal()
	if h.cutHit && !h.stall && len(data) < len(p) {
		return len(data), errors.New("write: connection reset by peer")
	}
	return len(p), nil
}

func (c *simConn) Close() error {
	c.mu.Lock()
	if c.closed {
		c.mu.Unlock()
		return nil
	}
	c.closed = true
	close(c.closeCh)
	c.mu.Unlock()
	c.w.mu.Lock()
	c.w.eof = true
	c.w.signal()
	c.w.mu.Unlock()
	return nil
}

func (c *simConn) IsClosed() bool {
	c.mu.Lock()
	defer c.mu.Unlock()
	return c.closed
}

func (c *simConn) LocalAddr() net.Addr  { return tcpAddrOf(c.local) }
func (c *simConn) RemoteAddr() net.Addr { return tcpAddrOf(c.remote) }
func (c *simConn) SetDeadline(t time.Time) error {
	if simDeadlineErr {
		return errDeadlineRefused
	}
	c.mu.Lock()
	c.rdl, c.wdl = t, t
	c.Deadlines++
	c.mu.Unlock()
	return nil
}
func (c *simConn) SetReadDeadline(t time.Time) error {
	if simDeadlineErr {
		return errDeadlineRefused
	}
	c.mu.Lock()
	c.rdl = t
	c.mu.Unlock()
	return nil
}
func (c *simConn) SetWriteDeadline(t time.Time) error {
	if simDeadlineErr {
		return errDeadlineRefused
	}
	c.mu.Lock()
	c.wdl = t
	c.mu.Unlock()
	return nil
}

// CutAfter makes this end's outgoing direction deliver only n more bytes.
func (c *simConn) CutAfter(n int, stall bool) {
	c.w.mu.Lock()
	c.w.limit = c.w.written + n
	c.w.stall = stall
	c.w.mu.Unlock()
}

type simTCPAddr struct{ s string }

func (a simTCPAddr) Network() string { return "tcp" }
func (a simTCPAddr) String() string  { return a.s }
func tcpAddrOf(a simAddr) net.Addr   { return simTCPAddr{string(a)} }

// ---------------------------------------------------------------- transport

type sentPkt struct {
	To   string
	Name string
	Buf  []byte
	At   time.Time
}

// simTransport implements memberlist.NodeAwareTransport.
type simTransport struct {
	mu       sync.Mutex
	ip       net.IP
	port     int
	self     simAddr
	pktCh    chan *ml.Packet
	streamCh chan net.Conn
	shut     bool
	Sent     []sentPkt
	// OnSend, if set, is called for every packet handed to the transport
	// (after recording). It must not block.
	OnSend func(p sentPkt)
	// FailSend, if set, is asked first: a non-nil error is the transport's
	// answer to that write and the packet goes nowhere (an environment answer:
	// ENETUNREACH, EPERM, a custom transport's refusal ...).
	FailSend func(p sentPkt) error
	// OnDial decides stream dials. nil = refuse.
	OnDial func(addr ml.Address, timeout time.Duration) (net.Conn, error)
	// SentAfterShutdown counts writes that arrive after Shutdown returned.
	SentAfterShutdown int
	Dials             int
	AdvertiseErr      bool // FinalAdvertiseAddr fails from now on
}

func newSimTransport(ip net.IP, port int) *simTransport {
	return &simTransport{ip: ip, port: port, self: simAddr(fmt.Sprintf("%s:%d", ip, port)),
		pktCh: make(chan *ml.Packet, 8192), streamCh: make(chan net.Conn, 256)}
}

func (t *simTransport) FinalAdvertiseAddr(string, int) (net.IP, int, error) {
	t.mu.Lock()
	fail := t.AdvertiseErr
	t.mu.Unlock()
	if fail {
		// an environment answer: the address lookup worked at start-up and fails now (interface gone)
		return nil, 0, errors.New("no private IP address found, and explicit IP not provided")
	}
	return t.ip, t.port, nil
}
func (t *simTransport) WriteTo(b []byte, a string) (time.Time, error) {
	return t.WriteToAddress(b, ml.Address{Addr: a})
}
func (t *simTransport) WriteToAddress(b []byte, a ml.Address) (time.Time, error) {
	p := sentPkt{To: a.Addr, Name: a.Name, Buf: append([]byte(nil), b...), At: time.Now()}
	t.mu.Lock()
	if fs := t.FailSend; fs != nil {
		t.mu.Unlock()
		if err := fs(p); err != nil {
			return time.Time{}, err
		}
		t.mu.Lock()
	}
	if t.shut {
		t.SentAfterShutdown++
	}
	t.Sent = append(t.Sent, p)
	f := t.OnSend
	t.mu.Unlock()
	if f != nil {
		f(p)
	}
	return time.Now(), nil
}
func (t *simTransport) PacketCh() <-chan *ml.Packet { return t.pktCh }
func (t *simTransport) StreamCh() <-chan net.Conn   { return t.streamCh }
func (t *simTransport) DialTimeout(a string, d time.Duration) (net.Conn, error) {
	return t.DialAddressTimeout(ml.Address{Addr: a}, d)
}
func (t *simTransport) DialAddressTimeout(a ml.Address, d time.Duration) (net.Conn, error) {
	t.mu.Lock()
	f := t.OnDial
	t.Dials++
	if t.shut {
		t.SentAfterShutdown++
	}
	t.mu.Unlock()
	if f == nil {
		return nil, &net.OpError{Op: "dial", Net: "tcp", Err: errors.New("connection refused")}
	}
	return f(a, d)
}
func (t *simTransport) Shutdown() error {
	// tearing a transport down takes time: let Engine T schedule other threads here
	if s := vsched.Cur(); s != nil && !s.IsSched() && s.Known() {
		s.Point(vsched.KYield, nil, "")
	}
	t.mu.Lock()
	t.shut = true
	t.mu.Unlock()
	return nil
}

// plainTransport hides the node-aware half of simTransport: an application transport that implements only
// memberlist.Transport, so that the library's own shim (addresses without node names) and the packet/stream
// entry points of its label wrapper that only such transports reach are exercised.
type plainTransport struct{ t *simTransport }

func (p *plainTransport) FinalAdvertiseAddr(ip string, port int) (net.IP, int, error) {
	return p.t.FinalAdvertiseAddr(ip, port)
}
func (p *plainTransport) WriteTo(b []byte, a string) (time.Time, error) { return p.t.WriteTo(b, a) }
func (p *plainTransport) PacketCh() <-chan *ml.Packet                   { return p.t.PacketCh() }
func (p *plainTransport) DialTimeout(a string, d time.Duration) (net.Conn, error) {
	return p.t.DialTimeout(a, d)
}
func (p *plainTransport) StreamCh() <-chan net.Conn { return p.t.StreamCh() }
func (p *plainTransport) Shutdown() error           { return p.t.Shutdown() }

// withPlainTransport: the node's transport is not node-aware (use as the LAST option).
func withPlainTransport(c *ml.Config) {
	if st, ok := c.Transport.(*simTransport); ok {
		c.Transport = &plainTransport{st}
	}
}

// Deliver hands a packet to the node's packet listener.
func (t *simTransport) Deliver(buf []byte, from simAddr) bool {
	select {
	case t.pktCh <- &ml.Packet{Buf: append([]byte(nil), buf...), From: from, Timestamp: time.Now()}:
		return true
	default:
		return false
	}
}

// Accept hands a stream to the node's stream listener.
func (t *simTransport) Accept(c net.Conn) bool {
	select {
	case t.streamCh <- c:
		return true
	default:
		return false
	}
}

func (t *simTransport) TakeSent() []sentPkt {
	t.mu.Lock()
	defer t.mu.Unlock()
	s := t.Sent
	t.Sent = nil
	return s
}
func (t *simTransport) NumSent() int {
	t.mu.Lock()
	defer t.mu.Unlock()
	return len(t.Sent)
}

// ---------------------------------------------------------------- recorders

type evRec struct {
	Kind string // join leave update
	Name string
	Meta string
	Addr string
	At   time.Time
}

type eventRec struct {
	mu       sync.Mutex
	Log      []evRec
	inFlight int
	MaxConc  int
	// hook runs inside the callback (node lock held by the caller).
	hook func(kind string, n *ml.Node)
}

func (e *eventRec) note(kind string, n *ml.Node) {
	e.mu.Lock()
	e.inFlight++
	if e.inFlight > e.MaxConc {
		e.MaxConc = e.inFlight
	}
	e.Log = append(e.Log, evRec{kind, n.Name, string(n.Meta), n.Address(), time.Now()})
	h := e.hook
	e.mu.Unlock()
	if h != nil {
		h(kind, n)
	}
	e.mu.Lock()
	e.inFlight--
	e.mu.Unlock()
}
func (e *eventRec) NotifyJoin(n *ml.Node)   { e.note("join", n) }
func (e *eventRec) NotifyLeave(n *ml.Node)  { e.note("leave", n) }
func (e *eventRec) NotifyUpdate(n *ml.Node) { e.note("update", n) }
func (e *eventRec) Len() int                { e.mu.Lock(); defer e.mu.Unlock(); return len(e.Log) }
func (e *eventRec) Since(i int) []evRec {
	e.mu.Lock()
	defer e.mu.Unlock()
	return append([]evRec(nil), e.Log[i:]...)
}

type delegateRec struct {
	mu         sync.Mutex
	Meta       []byte
	Msgs       [][]byte
	Bcasts     [][]byte // handed out on GetBroadcasts (all that fit)
	Chatter    []byte   // if set, handed out on every GetBroadcasts call
	GaveOut    [][]byte
	Local      []byte
	LocalDelay time.Duration // the next LocalState call takes this long
	Merged     [][]byte
	MergedJoin []bool
	GetCalls   [][2]int
}

func (d *delegateRec) NodeMeta(limit int) []byte { d.mu.Lock(); defer d.mu.Unlock(); return d.Meta }
func (d *delegateRec) NotifyMsg(b []byte) {
	d.mu.Lock()
	d.Msgs = append(d.Msgs, append([]byte(nil), b...))
	d.mu.Unlock()
}
func (d *delegateRec) GetBroadcasts(overhead, limit int) [][]byte {
	d.mu.Lock()
	defer d.mu.Unlock()
	d.GetCalls = append(d.GetCalls, [2]int{overhead, limit})
	var out [][]byte
	used := 0
	rest := d.Bcasts[:0:0]
	for _, b := range d.Bcasts {
		if used+overhead+len(b) <= limit {
			out = append(out, b)
			used += overhead + len(b)
		} else {
			rest = append(rest, b)
		}
	}
	d.Bcasts = rest
	if d.Chatter != nil && used+overhead+len(d.Chatter) <= limit {
		out = append(out, d.Chatter) // an application that always has something to say
	}
	d.GaveOut = append(d.GaveOut, out...)
	return out
}
func (d *delegateRec) LocalState(join bool) []byte {
	d.mu.Lock()
	delay := d.LocalDelay
	d.LocalDelay = 0
	d.mu.Unlock()
	if delay > 0 {
		time.Sleep(delay) // a slow application callback (once)
	}
	d.mu.Lock()
	defer d.mu.Unlock()
	return d.Local
}
func (d *delegateRec) MergeRemoteState(b []byte, join bool) {
	d.mu.Lock()
	d.Merged = append(d.Merged, append([]byte(nil), b...))
	d.MergedJoin = append(d.MergedJoin, join)
	d.mu.Unlock()
}
func (d *delegateRec) SetMeta(m []byte) { d.mu.Lock(); d.Meta = m; d.mu.Unlock() }
func (d *delegateRec) NumMsgs() int     { d.mu.Lock(); defer d.mu.Unlock(); return len(d.Msgs) }

type conflictRec struct {
	mu  sync.Mutex
	Log []string
}

func (c *conflictRec) NotifyConflict(existing, other *ml.Node) {
	c.mu.Lock()
	c.Log = append(c.Log, fmt.Sprintf("%s %s->%s", existing.Name, existing.Address(), other.Address()))
	c.mu.Unlock()
}
func (c *conflictRec) Len() int { c.mu.Lock(); defer c.mu.Unlock(); return len(c.Log) }

type mergeRec struct {
	mu       sync.Mutex
	Veto     bool
	VetoName string // non-empty: refuse iff a peer of this name is among those shown
	Calls    int
	Last     []string
	LastFull []string // name|address|meta|state of every peer shown, copied inside the callback
}

func (m *mergeRec) NotifyMerge(peers []*ml.Node) error {
	m.mu.Lock()
	defer m.mu.Unlock()
	m.Calls++
	m.Last = nil
	m.LastFull = nil
	named := false
	for _, p := range peers {
		m.Last = append(m.Last, p.Name)
		m.LastFull = append(m.LastFull, fmt.Sprintf("%s|%s|%s|%d", p.Name, p.Address(), p.Meta, p.State))
		if m.VetoName != "" && p.Name == m.VetoName {
			named = true
		}
	}
	if named {
		return errors.New("vetoed by merge delegate: unwanted peer in the list")
	}
	if m.Veto {
		return errors.New("vetoed by merge delegate")
	}
	return nil
}

type aliveRec struct {
	mu  sync.Mutex
	Log []string
}

func (a *aliveRec) NotifyAlive(n *ml.Node) error {
	a.mu.Lock()
	a.Log = append(a.Log, n.Name+"@"+n.Address())
	a.mu.Unlock()
	return nil
}

// vetoAlive is an application filter (AliveDelegate) that refuses every claim carrying one metadata value.
type vetoAlive struct{ Meta string }

func (v *vetoAlive) NotifyAlive(n *ml.Node) error {
	if string(n.Meta) == v.Meta {
		return errors.New("refused by the application's alive filter")
	}
	return nil
}

// ---------------------------------------------------------------- node factory

type node struct {
	M    *ml.Memberlist
	T    *simTransport
	Cfg  *ml.Config
	Ev   *eventRec
	D    *delegateRec
	Cf   *conflictRec
	Name string
	Addr simAddr
	logs *bytes.Buffer
}

var defaultVsn = []uint8{1, 5, 2, 0, 0, 0}

func ip4(last byte) net.IP { return net.IPv4(10, 0, 0, last).To4() }

type nodeOpt func(*ml.Config)

// newNode creates a real, unscheduled memberlist node on a simulated transport.
func newNode(name string, ip net.IP, opts ...nodeOpt) (*node, error) {
	c := ml.DefaultLANConfig()
	c.Name = name
	c.BindPort = 7946
	c.AdvertisePort = 7946
	tr := newSimTransport(ip, 7946)
	c.Transport = tr
	n := &node{T: tr, Cfg: c, Ev: &eventRec{}, D: &delegateRec{}, Cf: &conflictRec{}, Name: name, Addr: tr.self}
	if os.Getenv("MC_LOGS") != "" {
		n.logs = &bytes.Buffer{}
		c.Logger = log.New(n.logs, name+" ", 0)
	} else {
		c.Logger = log.New(io.Discard, "", 0)
	}
	c.Events = n.Ev
	c.Delegate = n.D
	c.Conflict = n.Cf
	c.EnableCompression = false
	for _, o := range opts {
		o(c)
	}
	if c.BindPort != 7946 {
		// an option chose another port: rebuild the transport on it
		_, plain := c.Transport.(*plainTransport)
		tr = newSimTransport(ip, c.BindPort)
		c.Transport = tr
		if plain {
			c.Transport = &plainTransport{tr}
		}
		c.AdvertisePort = c.BindPort
		n.T, n.Addr = tr, tr.self
	}
	m, err := ml.VNewUnscheduled(c)
	if err != nil {
		return nil, err
	}
	n.M = m
	return n, nil
}

// ---------------------------------------------------------------- bubble runner

type bubbleResult struct {
	Panic any
	Leak  bool
}

// inBubble runs f inside a fresh synctest bubble. Nodes registered with
// b.track are shut down when f returns (or panics). A panic of f itself is
// returned; a panic in another goroutine of the bubble kills the process (the
// worker journal attributes it). If goroutines remain blocked after shutdown,
// synctest's deadlock panic is caught and reported as Leak.
type bubble struct {
	nodes []*node
	conns []*simConn
}

func (b *bubble) track(n *node) *node { b.nodes = append(b.nodes, n); return n }

func inBubble(t *testing.T, f func(b *bubble)) (res bubbleResult) {
	defer func() {
		if r := recover(); r != nil {
			s := fmt.Sprint(r)
			if strings.Contains(s, "blocked goroutines remain") || strings.Contains(s, "deadlock") {
				res.Leak = true
				if res.Panic == nil {
					res.Panic = nil
				}
				return
			}
			res.Panic = r
		}
	}()
	synctest.Test(t, func(t *testing.T) {
		b := &bubble{}
		defer func() {
			if r := recover(); r != nil {
				res.Panic = r
			}
			for _, n := range b.nodes {
				if n.M != nil {
					_ = catch(func() { _ = n.M.Shutdown() })
				}
			}
			for _, c := range b.conns {
				_ = c.Close()
			}
		}()
		f(b)
	})
	return
}

// settle waits until every goroutine in the bubble is durably blocked.
func settle() { synctest.Wait() }

// advance moves virtual time forward by d and settles.
func advance(d time.Duration) {
	time.Sleep(d)
	synctest.Wait()
}

// ---------------------------------------------------------------- snapshot helpers

func stateName(s ml.NodeStateType) string {
	switch s {
	case ml.StateAlive:
		return "alive"
	case ml.StateSuspect:
		return "suspect"
	case ml.StateDead:
		return "dead"
	case ml.StateLeft:
		return "left"
	}
	return fmt.Sprintf("state%d", s)
}

func memberNames(m *ml.Memberlist) []string {
	var out []string
	for _, n := range m.Members() {
		out = append(out, n.Name)
	}
	sort.Strings(out)
	return out
}

func findRec(s *ml.VSnap, name string) *ml.VNodeRec {
	for i := range s.Recs {
		if s.Recs[i].Name == name {
			return &s.Recs[i]
		}
	}
	return nil
}
