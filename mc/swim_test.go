package mc

// Engine S for the membership state machine: a real node `o` driven by claim
// events (alive/suspect/dead/push-pull entries over several carriers), time
// advances, reaping passes, queue drains and local API calls, stepping in
// lock-step with a reference automaton written from the SWIM/Lifeguard rules.
// Shared by C01, C02, C07, C08, C18.

import (
	"bytes"
	"fmt"
	"net"
	"runtime"
	"sort"
	"strings"
	"testing"
	"time"

	ml "github.com/hashicorp/memberlist"
)

// ---------------------------------------------------------------- events

type cev struct {
	K       string // alive suspect dead pp advance reap drain update leave
	Node    string
	Inc     uint32
	Addr    string // "A","B",... resolved through world.addrs ; "" = default of node
	Meta    string
	Vsn     string // ok ok2 bad short none
	From    string // suspect/dead: accuser
	State   string // pp: alive suspect dead left
	Carrier string // pkt compound compressed pp direct
	Src     string // source address of the packet ("" = allowed peer t)
	D       string // advance: named duration
	Join    bool   // pp: join flag
}

func (e cev) String() string {
	switch e.K {
	case "alive":
		return fmt.Sprintf("alive(%s,i%d,@%s,m=%s,v=%s)/%s%s", e.Node, e.Inc, e.Addr, e.Meta, e.Vsn, e.Carrier, srcStr(e.Src))
	case "suspect", "dead":
		return fmt.Sprintf("%s(%s,i%d,from=%s)/%s", e.K, e.Node, e.Inc, e.From, e.Carrier)
	case "pp":
		return fmt.Sprintf("pp(%s,i%d,%s,@%s,m=%s,v=%s,join=%v)", e.Node, e.Inc, e.State, e.Addr, e.Meta, e.Vsn, e.Join)
	case "advance":
		return "advance(" + e.D + ")"
	case "update":
		return "UpdateNode(m=" + e.Meta + ")"
	}
	return e.K
}
func srcStr(s string) string {
	if s == "" {
		return ""
	}
	return "<" + s
}

func vsnOf(id string) []uint8 {
	switch id {
	case "ok":
		return []uint8{1, 5, 2, 0, 0, 0}
	case "ok2":
		return []uint8{1, 5, 3, 0, 1, 0}
	case "bad":
		return []uint8{0, 5, 2, 0, 0, 0}
	case "short":
		return []uint8{1, 5, 2}
	}
	return nil
}

// ---------------------------------------------------------------- reference automaton

type refRec struct {
	State    string // alive suspect dead left
	Inc      uint32
	Addr     string // host:port
	IP       []byte
	Port     uint16
	Meta     string
	Vsn      [6]uint8
	Timer    bool
	Confirm  map[string]bool
	K        int
	N        int // confirmations counted
	Since    time.Time
	SuspMin  time.Duration
	SuspMax  time.Duration
	SuspFrom time.Time
}

type refEffect struct {
	Events   []string // "join x" ...
	Conflict int
	Enq      map[string]string // node -> "type inc"
	Changed  bool
}

type refNode struct {
	Name     string
	OwnInc   uint32
	Left     bool
	Recs     map[string]*refRec
	NumNodes int
	Health   int
	Queue    map[string]string // name -> "alive 3" etc (latest enqueued)
	cfg      *ml.Config
	eff      *refEffect
}

func (r *refNode) allowed(ip []byte) bool {
	if len(r.cfg.CIDRsAllowed) == 0 {
		return true
	}
	for _, n := range r.cfg.CIDRsAllowed {
		if n.Contains(net.IP(ip)) {
			return true
		}
	}
	return false
}

func (r *refNode) enq(node, what string) {
	r.Queue[node] = what
	r.eff.Enq[node] = what
}
func (r *refNode) ev(kind, node string) { r.eff.Events = append(r.eff.Events, kind+" "+node) }

func (r *refNode) refute(me *refRec, accused uint32) {
	inc := r.OwnInc + 1
	if accused >= inc {
		inc = accused + 1
	}
	r.OwnInc = inc
	me.Inc = inc
	if r.Health < r.cfg.AwarenessMaxMultiplier-1 {
		r.Health++
	}
	// Mirrors the implementation: the refutation is queued under the node's
	// address string, not its name (so it does not supersede an older queued
	// alive about the node). The statements only require that it is gossiped.
	r.enq(net.IP(me.IP).String(), fmt.Sprintf("alive %d", inc))
	r.eff.Changed = true
}

func hostPort(ip []byte, port uint16) string {
	return net.JoinHostPort(net.IP(ip).String(), fmt.Sprint(port))
}

func (r *refNode) alive(node string, inc uint32, ip []byte, port uint16, meta string, vsn []uint8, bootstrap bool, now time.Time) {
	if r.Left && node == r.Name {
		return
	}
	if len(vsn) >= 3 && (vsn[0] == 0 || vsn[1] == 0 || vsn[0] > vsn[1]) {
		return
	}
	// an application filter sees every claim first (also those about the node itself); it needs the
	// full version vector, and what it refuses does not exist
	if r.cfg.Alive != nil {
		if len(vsn) < 6 {
			return
		}
		if va, ok := r.cfg.Alive.(*vetoAlive); ok && va.Meta == meta {
			return
		}
	}
	rec, ok := r.Recs[node]
	updates := false
	if !ok {
		if !r.allowed(ip) {
			return
		}
		rec = &refRec{State: "dead", Addr: hostPort(ip, port), IP: append([]byte(nil), ip...), Port: port, Meta: meta}
		if len(vsn) > 5 {
			copy(rec.Vsn[:], vsn)
		}
		r.Recs[node] = rec
		r.NumNodes++
		r.eff.Changed = true
	} else if !bytes.Equal(rec.IP, ip) || rec.Port != port {
		if !r.allowed(ip) {
			return
		}
		canReclaim := r.cfg.DeadNodeReclaimTime > 0 && now.Sub(rec.Since) > r.cfg.DeadNodeReclaimTime
		if rec.State == "left" || (rec.State == "dead" && canReclaim) {
			updates = true
		} else {
			r.eff.Conflict++
			return
		}
	}
	local := node == r.Name
	if inc <= rec.Inc && !local && !updates {
		return
	}
	if inc < rec.Inc && local {
		return
	}
	rec.Timer = false
	oldState, oldMeta := rec.State, rec.Meta
	if !bootstrap && local {
		if inc == rec.Inc && meta == rec.Meta && bytes.Equal(vsn, rec.Vsn[:]) {
			return
		}
		r.refute(rec, inc)
	} else {
		r.enq(node, fmt.Sprintf("alive %d", inc))
		if len(vsn) >= 6 {
			copy(rec.Vsn[:], vsn)
		}
		rec.Inc, rec.Meta = inc, meta
		rec.IP, rec.Port, rec.Addr = append([]byte(nil), ip...), port, hostPort(ip, port)
		if rec.State != "alive" {
			rec.State, rec.Since = "alive", now
		}
		if local && inc > r.OwnInc {
			// bootstrap path (UpdateNode) uses the node's own counter
			r.OwnInc = inc
		}
		r.eff.Changed = true
	}
	if oldState == "dead" || oldState == "left" {
		r.ev("join", node)
	} else if oldMeta != rec.Meta {
		r.ev("update", node)
	}
}

func (r *refNode) suspect(node string, inc uint32, from string, now time.Time) {
	rec, ok := r.Recs[node]
	if !ok || inc < rec.Inc {
		return
	}
	if rec.Timer {
		if rec.N < rec.K && !rec.Confirm[from] {
			rec.Confirm[from] = true
			rec.N++
			r.enq(node, fmt.Sprintf("suspect %d", inc))
			r.eff.Changed = true
			// a confirmation shortens the timeout; if the shortened one has already elapsed the
			// suspicion ends at once
			if dl := rec.SuspFrom.Add(refSuspicionTimeout(rec.N, rec.K, rec.SuspMin, rec.SuspMax)); !now.Before(dl) {
				rec.Timer = false
				if rec.State == "suspect" {
					r.dead(node, rec.Inc, r.Name, now)
				}
			}
		}
		return
	}
	if rec.State != "alive" {
		return
	}
	if node == r.Name {
		r.refute(rec, inc)
		return
	}
	r.enq(node, fmt.Sprintf("suspect %d", inc))
	rec.Inc, rec.State, rec.Since = inc, "suspect", now
	k := r.cfg.SuspicionMult - 2
	if r.NumNodes-2 < k {
		k = 0
	}
	rec.Timer, rec.K, rec.N = true, k, 0
	rec.Confirm = map[string]bool{from: true}
	rec.SuspMin = ml.VSuspicionTimeout(r.cfg.SuspicionMult, r.NumNodes, r.cfg.ProbeInterval)
	rec.SuspMax = time.Duration(r.cfg.SuspicionMaxTimeoutMult) * rec.SuspMin
	rec.SuspFrom = now
	r.eff.Changed = true
}

func (r *refNode) dead(node string, inc uint32, from string, now time.Time) {
	rec, ok := r.Recs[node]
	if !ok || inc < rec.Inc {
		return
	}
	if rec.Timer {
		rec.Timer = false
	}
	if rec.State == "dead" || rec.State == "left" {
		return
	}
	if node == r.Name {
		if !r.Left {
			r.refute(rec, inc)
			return
		}
	}
	r.enq(node, fmt.Sprintf("dead %d", inc))
	rec.Inc = inc
	if node == from {
		rec.State = "left"
	} else {
		rec.State = "dead"
	}
	rec.Since = now
	r.ev("leave", node)
	r.eff.Changed = true
}

// fireTimers: every suspicion whose deadline has passed declares the node dead.
func (r *refNode) fireTimers(now time.Time) {
	for _, name := range sortedKeys(r.Recs) {
		rec := r.Recs[name]
		if !rec.Timer {
			continue
		}
		dl := rec.SuspFrom.Add(refSuspicionTimeout(rec.N, rec.K, rec.SuspMin, rec.SuspMax))
		if !now.Before(dl) {
			rec.Timer = false
			if rec.State == "suspect" {
				r.dead(name, rec.Inc, r.Name, dl)
			}
		}
	}
}

func (r *refNode) reap(now time.Time) {
	for name, rec := range r.Recs {
		if name != r.Name && (rec.State == "dead" || rec.State == "left") && now.Sub(rec.Since) > r.cfg.GossipToTheDeadTime {
			delete(r.Recs, name)
			r.eff.Changed = true
		}
	}
	r.NumNodes = len(r.Recs)
}

// refSuspicionTimeout is the documented Lifeguard schedule.
func refSuspicionTimeout(n, k int, min, max time.Duration) time.Duration {
	if k < 1 {
		return min
	}
	return ml.VRemainingSuspicionTime(int32(n), int32(k), 0, min, max)
}

// ---------------------------------------------------------------- world

type worldCfg struct {
	Reclaim   time.Duration
	CIDRs     []string
	Peers     int // background alive peers p1..pn
	SuspMult  int
	AliveVeto string // non-empty: an AliveDelegate that refuses every claim carrying this metadata
	Opts      []nodeOpt
	Monitor   bool // attach the C07 event monitor
	NoRefDiff bool
}

type world struct {
	o     *node
	ref   *refNode
	addrs map[string][2]any // id -> ip bytes, port
	cfg   worldCfg
	evIdx int
	cfIdx int
	mon   *c07mon
}

var (
	addrTable = map[string]struct {
		IP   net.IP
		Port uint16
	}{
		"A":    {ip4(2), 7946},
		"B":    {ip4(3), 7946},
		"C":    {ip4(4), 7946},
		"D":    {ip4(5), 7946},
		"O":    {ip4(1), 7946},  // o's own
		"O2":   {ip4(77), 7946}, // a different address claimed for o
		"AP":   {ip4(2), 8000},  // same IP other port
		"X4":   {net.IPv4(192, 168, 9, 9).To4(), 7946},
		"X6":   {net.ParseIP("2001:db8::9"), 7946},
		"A16":  {net.IPv4(10, 0, 0, 2).To16(), 7946}, // 16-byte form of A
		"X16":  {net.IPv4(192, 168, 9, 9).To16(), 7946},
		"V6ok": {net.ParseIP("fd00::5"), 7946},
		"L3":   {net.IP{10, 0, 0}, 7946},
		"L5":   {net.IP{10, 0, 0, 2, 1}, 7946},
		"L0":   {net.IP{}, 7946},
		"NIL":  {nil, 7946}, // address field absent / msgpack nil
		"L15":  {net.IP(bytes.Repeat([]byte{1}, 15)), 7946},
		"L17":  {net.IP(bytes.Repeat([]byte{1}, 17)), 7946},
	}
	peerSrc = simAddr("10.0.0.9:7946")
)

func newWorld(b *bubble, wc worldCfg) *world {
	w := &world{cfg: wc}
	installDetRand()
	opts := append([]nodeOpt{func(c *ml.Config) {
		c.DeadNodeReclaimTime = wc.Reclaim
		if wc.SuspMult > 0 {
			c.SuspicionMult = wc.SuspMult
		}
		if wc.AliveVeto != "" {
			c.Alive = &vetoAlive{wc.AliveVeto}
		}
		if wc.CIDRs != nil {
			nets, err := ml.ParseCIDRs(wc.CIDRs)
			if err != nil {
				panic(err)
			}
			c.CIDRsAllowed = nets
		}
	}}, wc.Opts...)
	if wc.Monitor {
		w.mon = &c07mon{set: map[string]string{}}
		opts = append(opts, func(c *ml.Config) { c.Events.(*eventRec).hook = w.mon.onEvent })
	}
	n, err := newNode("o", ip4(1), opts...)
	if err != nil {
		panic(err)
	}
	w.o = b.track(n)
	if w.mon != nil {
		w.mon.m = n.M
	}
	n.D.SetMeta([]byte("om0"))
	// the reference starts from the node's own bootstrap alive
	w.ref = &refNode{Name: "o", OwnInc: 1, Recs: map[string]*refRec{}, Queue: map[string]string{}, cfg: n.Cfg, NumNodes: 1}
	w.ref.Recs["o"] = &refRec{State: "alive", Inc: 1, Addr: "10.0.0.1:7946", IP: ip4(1), Port: 7946, Vsn: [6]uint8{1, 5, n.Cfg.ProtocolVersion, 0, 0, 0}, Since: time.Now()}
	w.ref.Queue["o"] = "alive 1"
	w.ref.eff = &refEffect{Enq: map[string]string{}}
	advance(time.Microsecond)
	for i := 1; i <= wc.Peers; i++ {
		name := fmt.Sprintf("p%d", i)
		ip := ip4(byte(100 + i))
		a := &ml.VAlive{Incarnation: 1, Node: name, Addr: ip, Port: 7946, Vsn: defaultVsn}
		n.M.VAliveNode(a, nil, false)
		w.ref.alive(name, 1, ip, 7946, "", defaultVsn, false, time.Now())
		advance(time.Microsecond)
	}
	w.evIdx, w.cfIdx = n.Ev.Len(), n.Cf.Len()
	n.T.TakeSent()
	return w
}

func (w *world) resolve(node, id string) (net.IP, uint16) {
	if id == "" {
		id = "A"
	}
	a, ok := addrTable[id]
	if !ok {
		panic("unknown addr id " + id)
	}
	return a.IP, a.Port
}

func wrapCarrier(carrier string, msg []byte) []byte {
	switch carrier {
	case "compound":
		return ml.VMakeCompound([][]byte{msg})
	case "compressed":
		b, err := ml.VCompressPayload(msg, false)
		if err != nil {
			panic(err)
		}
		return b
	case "compcomp":
		b, err := ml.VCompressPayload(ml.VMakeCompound([][]byte{msg}), false)
		if err != nil {
			panic(err)
		}
		return b
	}
	return msg
}

// stepObs is what one event did, as seen from outside the node.
type stepObs struct {
	Before, After *ml.VSnap
	MembersBefore []string
	MembersAfter  []string
	Events        []evRec
	Conflicts     int
	Sent          int
	SentPkts      []sentPkt
	Err           string
	Now           time.Time
}

// apply runs one event on the real node and on the reference.
func (w *world) apply(e cev) *stepObs {
	o := w.o
	ob := &stepObs{Before: o.M.VSnapshot(), MembersBefore: memberNames(o.M)}
	evBefore, cfBefore := o.Ev.Len(), o.Cf.Len()
	o.T.TakeSent()
	w.ref.eff = &refEffect{Enq: map[string]string{}}
	now := time.Now()
	ob.Now = now
	src := peerSrc
	if e.Src != "" {
		src = simAddr(e.Src)
	}
	srcAllowed := true
	if len(o.Cfg.CIDRsAllowed) > 0 && e.Src != "pipe" {
		host, _, _ := net.SplitHostPort(string(src))
		srcAllowed = w.ref.allowed(net.ParseIP(host))
	}
	switch e.K {
	case "alive":
		ip, port := w.resolve(e.Node, e.Addr)
		a := &ml.VAlive{Incarnation: e.Inc, Node: e.Node, Addr: ip, Port: port, Meta: []byte(e.Meta), Vsn: vsnOf(e.Vsn)}
		if e.Meta == "" {
			a.Meta = nil
		}
		if e.Carrier == "direct" {
			o.M.VAliveNode(a, nil, false)
		} else {
			buf, err := ml.VEncode(ml.VAliveMsg, a, false)
			must(err)
			o.M.VIngestPacket(wrapCarrier(e.Carrier, buf), src, now)
		}
		// packet-path admission: allowed source, allowed inner address
		if e.Carrier == "direct" || (srcAllowed && (len(o.Cfg.CIDRsAllowed) == 0 || ip == nil || w.ref.allowed(ip))) {
			w.ref.alive(e.Node, e.Inc, ip, port, e.Meta, vsnOf(e.Vsn), false, now)
		}
	case "suspect":
		s := &ml.VSuspect{Incarnation: e.Inc, Node: e.Node, From: e.From}
		if e.Carrier == "direct" {
			o.M.VSuspectNode(s)
		} else {
			buf, err := ml.VEncode(ml.VSuspectMsg, s, false)
			must(err)
			o.M.VIngestPacket(wrapCarrier(e.Carrier, buf), src, now)
		}
		w.ref.suspect(e.Node, e.Inc, e.From, now)
	case "dead":
		d := &ml.VDead{Incarnation: e.Inc, Node: e.Node, From: e.From}
		if e.Carrier == "direct" {
			o.M.VDeadNode(d)
		} else {
			buf, err := ml.VEncode(ml.VDeadMsg, d, false)
			must(err)
			o.M.VIngestPacket(wrapCarrier(e.Carrier, buf), src, now)
		}
		w.ref.dead(e.Node, e.Inc, e.From, now)
	case "pp":
		ip, port := w.resolve(e.Node, e.Addr)
		st := map[string]ml.NodeStateType{"alive": ml.StateAlive, "suspect": ml.StateSuspect, "dead": ml.StateDead, "left": ml.StateLeft}[e.State]
		var meta []byte
		if e.Meta != "" {
			meta = []byte(e.Meta)
		}
		ps := []ml.VPushNodeState{{Name: e.Node, Addr: ip, Port: port, Meta: meta, Incarnation: e.Inc, State: st, Vsn: vsnOf(e.Vsn)}}
		err := o.M.VMergeRemoteState(e.Join, ps, nil)
		if err != nil {
			ob.Err = err.Error()
		} else {
			switch e.State {
			case "alive":
				w.ref.alive(e.Node, e.Inc, ip, port, e.Meta, vsnOf(e.Vsn), false, now)
			case "left":
				w.ref.dead(e.Node, e.Inc, e.Node, now)
			default:
				w.ref.suspect(e.Node, e.Inc, "o", now)
			}
		}
	case "advance":
		var d time.Duration
		switch e.D {
		case "reclaim":
			d = w.cfg.Reclaim + time.Second
			if w.cfg.Reclaim == 0 {
				d = 11 * time.Second
			}
		case "suspmax":
			d = time.Duration(o.Cfg.SuspicionMaxTimeoutMult)*ml.VSuspicionTimeout(o.Cfg.SuspicionMult, 64, o.Cfg.ProbeInterval) + time.Second
		case "gtd":
			d = o.Cfg.GossipToTheDeadTime + time.Second
		default:
			panic("advance " + e.D)
		}
		time.Sleep(d)
		settle()
		w.ref.fireTimers(time.Now())
	case "update":
		o.D.SetMeta([]byte(e.Meta))
		done := make(chan error, 1)
		go func() { done <- o.M.UpdateNode(2 * time.Second) }()
		settle()
		w.drainUntil(done, ob)
		w.ref.OwnInc++ // UpdateNode always takes the next incarnation, even if the claim is then ignored
		w.ref.alive("o", w.ref.OwnInc, w.ref.Recs["o"].IP, w.ref.Recs["o"].Port, e.Meta, o.Cfg.BuildVsnArray(), true, now)
		w.ref.Queue = map[string]string{}
		w.ref.fireTimers(time.Now()) // only if the call needed its timeout (virtual time passed)
	case "leave":
		done := make(chan error, 1)
		go func() { done <- o.M.Leave(2 * time.Second) }()
		settle()
		w.drainUntil(done, ob)
		if !w.ref.Left {
			w.ref.Left = true
			if me, ok := w.ref.Recs["o"]; ok {
				w.ref.dead("o", me.Inc, "o", now)
			}
		}
		w.ref.Queue = map[string]string{}
		w.ref.fireTimers(time.Now())
	case "reap":
		o.M.VResetNodes()
		w.ref.reap(now)
	case "drain":
		for i := 0; i < 64 && o.M.VBroadcasts().NumQueued() > 0; i++ {
			o.M.VGetBroadcasts(2, 1300)
		}
		w.ref.Queue = map[string]string{}
	default:
		panic("unknown event " + e.K)
	}
	settle()
	time.Sleep(time.Microsecond)
	settle()
	ob.After = o.M.VSnapshot()
	ob.MembersAfter = memberNames(o.M)
	ob.Events = o.Ev.Since(evBefore)
	ob.Conflicts = o.Cf.Len() - cfBefore
	ob.SentPkts = o.T.TakeSent()
	ob.Sent = len(ob.SentPkts)
	return ob
}

// drainUntil hands out queued broadcasts (as gossip ticks would) until the
// blocking API call completes; a call that needs its timeout is recorded.
func (w *world) drainUntil(done chan error, ob *stepObs) {
	for i := 0; i < 64; i++ {
		select {
		case err := <-done:
			if err != nil {
				ob.Err = err.Error()
			}
			for j := 0; j < 64 && w.o.M.VBroadcasts().NumQueued() > 0; j++ {
				w.o.M.VGetBroadcasts(2, 1300)
			}
			return
		default:
		}
		w.o.M.VGossip()
		settle()
	}
	// not completed by draining: let its timeout expire
	time.Sleep(3 * time.Second)
	settle()
	select {
	case err := <-done:
		ob.Err = "needed-timeout"
		if err != nil {
			ob.Err += ": " + err.Error()
		}
	default:
		ob.Err = "never-returned"
	}
}

// ---------------------------------------------------------------- comparisons

func decodeQueued(msg []byte) string {
	if len(msg) == 0 {
		return "?"
	}
	switch msg[0] {
	case ml.VAliveMsg:
		var a ml.VAlive
		if ml.VDecode(msg[1:], &a) == nil {
			return fmt.Sprintf("alive %d", a.Incarnation)
		}
	case ml.VSuspectMsg:
		var s ml.VSuspect
		if ml.VDecode(msg[1:], &s) == nil {
			return fmt.Sprintf("suspect %d", s.Incarnation)
		}
	case ml.VDeadMsg:
		var d ml.VDead
		if ml.VDecode(msg[1:], &d) == nil {
			return fmt.Sprintf("dead %d", d.Incarnation)
		}
	}
	return fmt.Sprintf("type%d", msg[0])
}

func queueMap(s *ml.VSnap) map[string]string {
	m := map[string]string{}
	for _, q := range s.Queue {
		m[q.Name] = decodeQueued(q.Msg)
	}
	return m
}

func queueFull(s *ml.VSnap) string {
	var parts []string
	for _, q := range s.Queue {
		parts = append(parts, fmt.Sprintf("%s=%s/t%d", q.Name, decodeQueued(q.Msg), q.Transmits))
	}
	sort.Strings(parts)
	return strings.Join(parts, ",")
}

func recStr(r *ml.VNodeRec) string {
	if r == nil {
		return "absent"
	}
	return fmt.Sprintf("%s i%d @%s m=%q v=%v timer=%v conf=%v", stateName(r.State), r.Incarnation, hostPort(r.Addr, r.Port), r.Meta, r.Vsn, r.HasTimer, r.Confirmers)
}

// diffRef compares the implementation's after-state with the reference's
// prediction; returns "" if equal.
func (w *world) diffRef(ob *stepObs) string {
	s := ob.After
	ref := w.ref
	if len(s.Recs) != len(ref.Recs) {
		var have, want []string
		for _, r := range s.Recs {
			have = append(have, r.Name)
		}
		want = sortedKeys(ref.Recs)
		return fmt.Sprintf("records %v, reference %v", have, want)
	}
	for i := range s.Recs {
		r := &s.Recs[i]
		x, ok := ref.Recs[r.Name]
		if !ok {
			return fmt.Sprintf("record %q exists, reference has none", r.Name)
		}
		if stateName(r.State) != x.State || r.Incarnation != x.Inc {
			return fmt.Sprintf("%s is %s i%d, reference %s i%d", r.Name, stateName(r.State), r.Incarnation, x.State, x.Inc)
		}
		if !bytes.Equal(r.Addr, x.IP) || r.Port != x.Port {
			return fmt.Sprintf("%s address %s, reference %s", r.Name, hostPort(r.Addr, r.Port), x.Addr)
		}
		if string(r.Meta) != x.Meta {
			return fmt.Sprintf("%s meta %q, reference %q", r.Name, r.Meta, x.Meta)
		}
		if r.Vsn != x.Vsn {
			return fmt.Sprintf("%s vsn %v, reference %v", r.Name, r.Vsn, x.Vsn)
		}
		if r.HasTimer != x.Timer {
			return fmt.Sprintf("%s has-timer=%v, reference %v", r.Name, r.HasTimer, x.Timer)
		}
		if r.HasTimer {
			var conf []string
			for c := range x.Confirm {
				conf = append(conf, c)
			}
			sort.Strings(conf)
			if strings.Join(conf, ",") != strings.Join(r.Confirmers, ",") || int(r.SuspK) != x.K {
				return fmt.Sprintf("%s confirmers %v k=%d, reference %v k=%d", r.Name, r.Confirmers, r.SuspK, conf, x.K)
			}
		}
		if x.State != "alive" || r.Name != "o" {
			if !r.StateChange.Equal(x.Since) && !(r.StateChange.IsZero() && x.Since.IsZero()) {
				return fmt.Sprintf("%s state-change at %v, reference %v", r.Name, r.StateChange.Format("15:04:05.000000"), x.Since.Format("15:04:05.000000"))
			}
		}
	}
	if s.Incarnation != ref.OwnInc {
		return fmt.Sprintf("own incarnation %d, reference %d", s.Incarnation, ref.OwnInc)
	}
	if int(s.NumNodes) != ref.NumNodes {
		return fmt.Sprintf("numNodes %d, reference %d", s.NumNodes, ref.NumNodes)
	}
	if s.Health != ref.Health {
		return fmt.Sprintf("health %d, reference %d", s.Health, ref.Health)
	}
	qm := queueMap(s)
	if fmt.Sprint(qm) != fmt.Sprint(ref.Queue) {
		return fmt.Sprintf("broadcast queue %v, reference %v", qm, ref.Queue)
	}
	var got []string
	for _, e := range ob.Events {
		got = append(got, e.Kind+" "+e.Name)
	}
	want := append([]string(nil), ref.eff.Events...)
	sort.Strings(got)
	sort.Strings(want)
	if strings.Join(got, ";") != strings.Join(want, ";") {
		return fmt.Sprintf("events %v, reference %v", got, want)
	}
	if ob.Conflicts != ref.eff.Conflict {
		return fmt.Sprintf("conflict callbacks %d, reference %d", ob.Conflicts, ref.eff.Conflict)
	}
	return ""
}

// canonKey: canonical form of the implementation state for BFS merging.
// Ages are bucketed against the thresholds the code compares with; exact
// StateChange instants, node order and the probe cursor are dropped (the
// handlers explored here never read them).
func (w *world) canonKey() string {
	s := w.o.M.VSnapshot()
	now := time.Now()
	var sb strings.Builder
	for i := range s.Recs {
		r := &s.Recs[i]
		// age class of the record. For dead/left records the code consults it (reclaim, gossip to the
		// dead, reaping); for alive/suspect ones it must NOT matter - which is exactly why the class
		// is kept for them too: merging "alive for 1us" with "alive for longer than the reclaim time"
		// would hide a handler that wrongly lets the age of a live member count.
		age := "f"
		el := now.Sub(r.StateChange)
		if (r.State == ml.StateDead || r.State == ml.StateLeft) && el > w.o.Cfg.GossipToTheDeadTime {
			age = "g"
		} else if w.cfg.Reclaim > 0 && el > w.cfg.Reclaim && r.Name != w.o.Name {
			age = "r"
		}
		fmt.Fprintf(&sb, "%s:%s:i%d:@%s:m%s:v%v:t%v:c%v:k%d:%s|", r.Name, stateName(r.State), r.Incarnation, hostPort(r.Addr, r.Port), r.Meta, r.Vsn, r.HasTimer, r.Confirmers, r.SuspK, age)
	}
	fmt.Fprintf(&sb, "own%d nn%d h%d leave%v q[%s]", s.Incarnation, s.NumNodes, s.Health, s.Leave, queueFull(s))
	return sb.String()
}

// ---------------------------------------------------------------- generic BFS

type swimCheck struct {
	name     string
	wc       worldCfg
	alphabet func(w *world) []cev // enabled events in the current state
	// oracle is called after every transition; returns sig,msg or "".
	oracle func(w *world, e cev, ob *stepObs) (string, string)
	// expand reports whether successors of the current state are explored.
	expand  func(w *world) bool
	maxDept int
}

type swimReplay struct {
	Check string `json:"check"`
	Cfg   string `json:"cfg"`
	Path  []cev  `json:"path"`
}

func pathStr(p []cev) []string {
	out := make([]string, len(p))
	for i, e := range p {
		out[i] = e.String()
	}
	return out
}

// runPath replays path on a fresh world; fn is called after the last event
// (while the bubble is still alive).
func (sc *swimCheck) runPath(t *testing.T, path []cev, fn func(w *world, last *stepObs, idx int) bool) (res bubbleResult) {
	return inBubble(t, func(b *bubble) {
		w := newWorld(b, sc.wc)
		var ob *stepObs
		for i, e := range path {
			ob = w.apply(e)
			if !fn(w, ob, i) {
				return
			}
		}
		if len(path) == 0 {
			fn(w, nil, -1)
		}
	})
}

// bfs explores to a fixpoint (or maxDept). Transitions are sharded by
// (state index) so that every shard keeps the whole seen-set (cheap) but only
// runs its share of oracles? No: state discovery must be identical in every
// shard, so sharding is done over independent configurations by the callers;
// one bfs call is single-process.
func (sc *swimCheck) bfs(t *testing.T, rep *Report, cfgName string) {
	type st struct {
		path  []cev
		alpha []cev // interned: states with the same enabled events share one slice
	}
	// the alphabet of a state has hundreds of events but depends on little of the state: storing one
	// copy per frontier state exhausted memory at thorough bounds
	interned := map[string][]cev{}
	intern := func(a []cev) []cev {
		k := fmt.Sprint(a)
		if x, ok := interned[k]; ok {
			return x
		}
		interned[k] = a
		return a
	}
	var ms runtime.MemStats
	seen := map[string]bool{}
	var frontier []st
	// initial state
	var initKey string
	var initAlpha []cev
	sc.runPath(t, nil, func(w *world, _ *stepObs, _ int) bool {
		initKey = w.canonKey()
		initAlpha = sc.alphabet(w)
		return true
	})
	seen[initKey] = true
	frontier = []st{{nil, intern(initAlpha)}}
	depth := 0
	stop := false
	for len(frontier) > 0 {
		depth++
		if sc.maxDept > 0 && depth > sc.maxDept {
			rep.Exhaustive = false
			rep.Notes = append(rep.Notes, fmt.Sprintf("%s/%s: depth bound %d reached with %d frontier states", sc.name, cfgName, sc.maxDept, len(frontier)))
			break
		}
		var next []st
		for _, s := range frontier {
			alpha := s.alpha
			if rep.Transitions&8191 == 0 {
				runtime.ReadMemStats(&ms)
				if ms.HeapAlloc > 6<<30 {
					stop = true
					rep.Incomplete(fmt.Sprintf("%s/%s: BFS stopped at %d states (depth %d): memory cap of 6 GiB per worker reached", sc.name, cfgName, len(seen), depth))
				}
			}
			if stop {
				break
			}
			for _, e := range alpha {
				path := append(append([]cev(nil), s.path...), e)
				journal("%s cfg=%s path=%v", sc.name, cfgName, pathStr(path))
				var key string
				var nextAlpha []cev
				var vsig, vmsg string
				expand := true
				res := sc.runPath(t, path, func(w *world, ob *stepObs, i int) bool {
					if i < len(path)-1 {
						return true
					}
					rep.Transitions++
					rep.Outcome(e.K)
					if sc.oracle != nil {
						if sg, m := sc.oracle(w, e, ob); sg != "" {
							vsig, vmsg = sg, m
							return false
						}
					}
					if d := w.diffRef(ob); d != "" {
						vsig, vmsg = "ref-divergence:"+e.K, d
						return false
					}
					key = w.canonKey()
					if ob.Before != nil && key != "" && w.ref.eff.Changed {
						rep.AddExtra("effective_transitions", 1)
					}
					if sc.expand != nil {
						expand = sc.expand(w)
					}
					nextAlpha = sc.alphabet(w)
					return true
				})
				if res.Panic != nil {
					vsig, vmsg = "panic:"+e.K, fmt.Sprint(res.Panic)
				}
				if vsig != "" {
					rep.Violate(vsig, fmt.Sprintf("cfg=%s path=%v: %s", cfgName, pathStr(path), vmsg), swimReplay{sc.name, cfgName, path})
					continue
				}
				if res.Leak {
					rep.Violate("goroutine-leak", fmt.Sprintf("cfg=%s path=%v", cfgName, pathStr(path)), swimReplay{sc.name, cfgName, path})
					continue
				}
				if !seen[key] {
					seen[key] = true
					if expand {
						next = append(next, st{path, intern(nextAlpha)})
					}
					if len(seen)%97 == 3 {
						rep.Sample(map[string]any{"cfg": cfgName, "path": pathStr(path), "state": key})
					}
				}
			}
			if rep.OverBudget() {
				break
			}
		}
		frontier = next
		if rep.OverBudget() || stop {
			break
		}
	}
	rep.States += len(seen)
	rep.Traces += len(seen)
	rep.Extra["states_"+cfgName] = len(seen)
	rep.Extra["max_depth_"+cfgName] = depth
}
