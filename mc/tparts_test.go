package mc

// Engine T parts of C01, C02, C07, C08 and C17: the real handlers and API
// calls of one node on separate threads, every interleaving at lock/atomic
// granularity within a preemption bound.

import (
	"bytes"
	"fmt"
	"strings"
	"testing"
	"time"

	ml "github.com/hashicorp/memberlist"
)

type tReplay struct {
	Scenario string `json:"scenario"`
	Choices  []int  `json:"choices"`
}

// runTSet explores a set of scenarios and reports violations under prefix.
func runTSet(t *testing.T, rep *Report, scs []tScenario, bound int, base int, keep ...func(verdict string) bool) {
	outcomes := map[string]bool{}
	for si, sc := range scs {
		sc := sc
		n := exploreT(t, rep, sc, bound, base+si*100003, func(x tExec) {
			rep.Transitions += len(x.Choices)
			rep.AddExtra("schedules", 1)
			outcomes[sc.Name+"|"+x.Outcome] = true
			if x.Verdict != "" && len(keep) > 0 && !keep[0](x.Verdict) {
				rep.Outcome("T-other-property:" + x.Verdict)
			} else if x.Verdict != "" {
				rep.Violate("T:"+sc.Name+":"+x.Verdict, fmt.Sprintf("scenario %s: %s; thread results: %s; schedule %v", sc.Name, x.Msg, resultsStr(x.Results), x.Choices), tReplay{sc.Name, x.Choices})
				rep.Outcome("T-violation:" + x.Verdict)
			} else {
				rep.Outcome("T-ok:" + sc.Name)
			}
		})
		rep.Extra["T_schedules_"+sc.Name] = n
	}
	rep.AddExtra("T_distinct_outcomes", len(outcomes))
}

func replayT(t *testing.T, rep *Report, scs []tScenario) bool {
	var rp tReplay
	if !loadReplay(&rp) || rp.Scenario == "" {
		return false
	}
	for _, sc := range scs {
		if sc.Name == rp.Scenario {
			x := runT(t, sc, rp.Choices)
			t.Logf("replay: verdict=%q %s results=%s", x.Verdict, x.Msg, resultsStr(x.Results))
			if x.Verdict != "" {
				rep.Violate("T:"+sc.Name+":"+x.Verdict, x.Msg, rp)
			}
			rep.States, rep.Transitions = 1, len(rp.Choices)+1
			rep.Samples = append(rep.Samples, rp)
			return true
		}
	}
	return false
}

// ---------------------------------------------------------------- C08

func sentDeparture(n *node) bool {
	for _, p := range n.T.Sent {
		leaves, err := explode(p.Buf)
		if err != nil {
			continue
		}
		for _, l := range leaves {
			var d ml.VDead
			if l[0] == ml.VDeadMsg && ml.VDecode(l[1:], &d) == nil && d.Node == "o" && d.From == "o" {
				return true
			}
		}
	}
	return false
}

func c08TScenarios() []tScenario {
	mk := func(name string, accuse func(n *node, own uint32), withUpdate bool) tScenario {
		return tScenario{Name: name, Horizon: 15 * time.Second, Build: func(b *bubble) ([]tThread, func(map[string]string) (string, string, string)) {
			n := tNode(b)
			own := n.M.VSnapshot().Incarnation
			ths := []tThread{
				{"leave", func() string {
					// a client retries once after an error
					err := n.M.Leave(2 * time.Second)
					if err == nil {
						return "nil"
					}
					err2 := n.M.Leave(2 * time.Second)
					return "err-then-" + errStr(err2)
				}},
				{"accuse", func() string { accuse(n, own); return "ok" }},
				gossipThread(n, 12),
			}
			if withUpdate {
				ths = append(ths, tThread{"update", func() string { n.D.SetMeta([]byte("new")); return errStr(n.M.UpdateNode(time.Second)) }})
			}
			return ths, func(res map[string]string) (string, string, string) {
				lr := res["leave"]
				me := findRec(n.M.VSnapshot(), "o")
				out := fmt.Sprintf("leave=%s self=%s announced=%v", lr, stateName(me.State), sentDeparture(n))
				if lr == "nil" || lr == "err-then-nil" {
					// Leave returned without error: the departure must have gone out and be final
					if !sentDeparture(n) {
						return "leave-returned-nil-but-nothing-announced", out, out
					}
					if me.State != ml.StateLeft {
						return "leave-returned-nil-but-node-still-" + stateName(me.State), out, out
					}
					if listed(n, "o") {
						return "leaver-lists-itself", out, out
					}
				}
				return "", "", out
			}
		}}
	}
	twoLeaves := tScenario{Name: "leave||leave||gossip", Horizon: 15 * time.Second, Build: func(b *bubble) ([]tThread, func(map[string]string) (string, string, string)) {
		n := tNode(b)
		lt := func(name string) tThread {
			return tThread{name, func() string {
				err := n.M.Leave(2 * time.Second)
				// what matters is the state of the world at the moment Leave returns
				return fmt.Sprintf("%s sent=%v", errStr(err), sentDeparture(n))
			}}
		}
		return []tThread{lt("leaveA"), lt("leaveB"), gossipThread(n, 12)}, func(res map[string]string) (string, string, string) {
			for _, k := range []string{"leaveA", "leaveB"} {
				if res[k] == "nil sent=false" {
					return "leave-returned-nil-before-anything-was-announced", fmt.Sprintf("%s: %s", k, res[k]), resultsStr(res)
				}
			}
			return "", "", resultsStr(res)
		}
	}}
	// With an AliveDelegate configured every alive claim passes through user code in the middle of
	// the handler: nothing the handler looked up before the callback may be stale afterwards.
	withAD := func(c *ml.Config) { c.Alive = &aliveRec{} }
	leaveUpdateAD := tScenario{Name: "leave||update||gossip +alive-delegate", Horizon: 15 * time.Second, Build: func(b *bubble) ([]tThread, func(map[string]string) (string, string, string)) {
		n := tNode(b, withAD)
		ths := []tThread{
			{"leave", func() string { return errStr(n.M.Leave(2 * time.Second)) }},
			{"update", func() string { n.D.SetMeta([]byte("new")); return errStr(n.M.UpdateNode(time.Second)) }},
			gossipThread(n, 12),
		}
		return ths, func(res map[string]string) (string, string, string) {
			me := findRec(n.M.VSnapshot(), "o")
			out := fmt.Sprintf("leave=%s update=%s self=%s announced=%v", res["leave"], res["update"], stateName(me.State), sentDeparture(n))
			if res["leave"] == "nil" {
				if !sentDeparture(n) {
					return "leave-returned-nil-but-nothing-announced", out, out
				}
				if me.State != ml.StateLeft || listed(n, "o") {
					return "leave-returned-nil-but-node-still-" + stateName(me.State), out, out
				}
			}
			return "", "", out
		}
	}}
	hijack := func(name string, first func(n *node), second func(n *node)) tScenario {
		return tScenario{Name: name, Horizon: 5 * time.Second, Build: func(b *bubble) ([]tThread, func(map[string]string) (string, string, string)) {
			n := tNode(b, withAD)
			ths := []tThread{
				{"claimA", func() string { first(n); return "ok" }},
				{"claimB", func() string { second(n); return "ok" }},
			}
			return ths, func(res map[string]string) (string, string, string) {
				s := n.M.VSnapshot()
				cnt := 0
				for _, nm := range s.Order {
					if nm == "x" {
						cnt++
					}
				}
				x := findRec(s, "x")
				joins := 0
				for _, e := range n.Ev.Since(0) {
					if e.Kind == "join" && e.Name == "x" {
						joins++
					}
				}
				mcount := 0
				for _, nm := range memberNames(n.M) {
					if nm == "x" {
						mcount++
					}
				}
				out := fmt.Sprintf("x=%s records=%d listed=%d joins=%d conflicts=%d", recStr(x), cnt, mcount, joins, n.Cf.Len())
				switch {
				case x == nil || cnt != 1 || mcount != 1:
					return "name-held-by-two-records", out, out
				case joins != 1:
					return "name-joined-" + fmt.Sprint(joins) + "-times", out, out
				case n.Cf.Len() != 1:
					// two equal-incarnation claims for one name from two addresses: whichever is applied second
					// names an existing alive member from a different address
					return "address-conflict-not-reported", out, out
				}
				return "", "", out
			}
		}}
	}
	aliveAt := func(ip byte, inc uint32) func(n *node) {
		return func(n *node) {
			n.M.VAliveNode(&ml.VAlive{Incarnation: inc, Node: "x", Addr: ip4(ip), Port: 7946, Vsn: defaultVsn}, nil, false)
		}
	}
	ppAt := func(ip byte, inc uint32) func(n *node) {
		return func(n *node) {
			n.M.VMergeState([]ml.VPushNodeState{{Name: "x", Addr: ip4(ip), Port: 7946, Incarnation: inc, State: ml.StateAlive, Vsn: defaultVsn}})
		}
	}
	return []tScenario{
		twoLeaves,
		leaveUpdateAD,
		hijack("alive(new x@A)||alive(new x@B) +alive-delegate", aliveAt(9, 1), aliveAt(10, 1)),
		hijack("alive(new x@A)||pushpull alive(new x@B) +alive-delegate", aliveAt(9, 1), ppAt(10, 1)),
		mk("leave||suspect(self,own)||gossip", func(n *node, own uint32) { n.M.VSuspectNode(&ml.VSuspect{Incarnation: own, Node: "o", From: "p"}) }, false),
		mk("leave||dead(self,own)||gossip", func(n *node, own uint32) { n.M.VDeadNode(&ml.VDead{Incarnation: own, Node: "o", From: "p"}) }, false),
		mk("leave||suspect(self,own+3)||gossip", func(n *node, own uint32) {
			n.M.VSuspectNode(&ml.VSuspect{Incarnation: own + 3, Node: "o", From: "p"})
		}, false),
		mk("leave||pushpull(self suspect)||gossip", func(n *node, own uint32) {
			n.M.VMergeState([]ml.VPushNodeState{{Name: "o", Addr: ip4(1), Port: 7946, Incarnation: own, State: ml.StateSuspect, Vsn: defaultVsn}})
		}, false),
		mk("leave||packet suspect(self)||gossip", func(n *node, own uint32) {
			sm, _ := ml.VEncode(ml.VSuspectMsg, &ml.VSuspect{Incarnation: own, Node: "o", From: "p"}, false)
			n.T.Deliver(sm, simAddr("10.0.0.2:7946"))
		}, false),
		mk("leave||suspect(self,own)||update||gossip", func(n *node, own uint32) { n.M.VSuspectNode(&ml.VSuspect{Incarnation: own, Node: "o", From: "p"}) }, true),
	}
}

// ---------------------------------------------------------------- C02

func c02TScenarios() []tScenario {
	finish := func(n *node, lastMeta func() string) func(res map[string]string) (string, string, string) {
		return func(res map[string]string) (string, string, string) {
			s := n.M.VSnapshot()
			me := findRec(s, "o")
			out := fmt.Sprintf("self=%s i%d own=%d meta=%q", stateName(me.State), me.Incarnation, s.Incarnation, me.Meta)
			if me.State != ml.StateAlive || !listed(n, "o") {
				return "self-not-alive", out, out
			}
			// whatever the interleaving did, the next accusation at the advertised incarnation is outranked
			adv := me.Incarnation
			n.M.VSuspectNode(&ml.VSuspect{Incarnation: adv, Node: "o", From: "z"})
			if me2 := findRec(n.M.VSnapshot(), "o"); me2.Incarnation <= adv || me2.State != ml.StateAlive {
				return "refutation-not-above-claim", fmt.Sprintf("after the race an accusation at incarnation %d was answered with incarnation %d", adv, me2.Incarnation), out
			}
			// the highest-incarnation alive about self that was queued or sent carries the latest metadata
			if want := lastMeta(); want != "" {
				best, bestMeta := uint32(0), ""
				scan := func(msg []byte) {
					var a ml.VAlive
					if len(msg) > 0 && msg[0] == ml.VAliveMsg && ml.VDecode(msg[1:], &a) == nil && a.Node == "o" && a.Incarnation >= best {
						best, bestMeta = a.Incarnation, string(a.Meta)
					}
				}
				for _, q := range s.Queue {
					scan(q.Msg)
				}
				for _, p := range n.T.Sent {
					if leaves, err := explode(p.Buf); err == nil {
						for _, l := range leaves {
							scan(l)
						}
					}
				}
				if bestMeta != want || string(me.Meta) != want {
					return "latest-metadata-not-published", fmt.Sprintf("UpdateNode(%q) completed but the newest alive about self (i%d) carries %q, record %q", want, best, bestMeta, me.Meta), out
				}
			}
			for name, r := range res {
				if strings.HasPrefix(name, "update") && r != "nil" {
					return "update-needed-its-timeout", fmt.Sprintf("%s returned %s (%s)", name, r, out), out
				}
			}
			return "", "", out
		}
	}
	return []tScenario{
		{Name: "update||suspect(self)||gossip", Horizon: 12 * time.Second, Build: func(b *bubble) ([]tThread, func(map[string]string) (string, string, string)) {
			n := tNode(b)
			own := n.M.VSnapshot().Incarnation
			return []tThread{
				{"update", func() string { n.D.SetMeta([]byte("m1")); return errStr(n.M.UpdateNode(2 * time.Second)) }},
				{"accuse", func() string { n.M.VSuspectNode(&ml.VSuspect{Incarnation: own, Node: "o", From: "p"}); return "ok" }},
				gossipThread(n, 8),
			}, finish(n, func() string { return "m1" })
		}},
		{Name: "update||dead(self,own+1)||gossip", Horizon: 12 * time.Second, Build: func(b *bubble) ([]tThread, func(map[string]string) (string, string, string)) {
			n := tNode(b)
			own := n.M.VSnapshot().Incarnation
			return []tThread{
				{"update", func() string { n.D.SetMeta([]byte("m1")); return errStr(n.M.UpdateNode(2 * time.Second)) }},
				{"accuse", func() string { n.M.VDeadNode(&ml.VDead{Incarnation: own + 1, Node: "o", From: "p"}); return "ok" }},
				gossipThread(n, 8),
			}, finish(n, func() string { return "m1" })
		}},
		{Name: "suspect(self)||dead(self)", Build: func(b *bubble) ([]tThread, func(map[string]string) (string, string, string)) {
			n := tNode(b)
			own := n.M.VSnapshot().Incarnation
			return []tThread{
				{"accuse1", func() string { n.M.VSuspectNode(&ml.VSuspect{Incarnation: own, Node: "o", From: "p"}); return "ok" }},
				{"accuse2", func() string { n.M.VDeadNode(&ml.VDead{Incarnation: own + 1, Node: "o", From: "q"}); return "ok" }},
			}, finish(n, func() string { return "" })
		}},
		{Name: "update||update||suspect(self)||gossip", Horizon: 12 * time.Second, Build: func(b *bubble) ([]tThread, func(map[string]string) (string, string, string)) {
			n := tNode(b)
			own := n.M.VSnapshot().Incarnation
			return []tThread{
				{"update1", func() string { n.D.SetMeta([]byte("m1")); return errStr(n.M.UpdateNode(2 * time.Second)) }},
				{"update2", func() string { time.Sleep(10 * time.Millisecond); return errStr(n.M.UpdateNode(2 * time.Second)) }},
				{"accuse", func() string { n.M.VSuspectNode(&ml.VSuspect{Incarnation: own, Node: "o", From: "p"}); return "ok" }},
				gossipThread(n, 8),
			}, finish(n, func() string { return "m1" })
		}},
	}
}

// ---------------------------------------------------------------- C01 / C07

// two conflicting claims about x on two threads: the end state must equal one
// of the two sequential results; the event log must stay a faithful log.
func c01TScenarios(eventFirst ...bool) []tScenario {
	evFirst := len(eventFirst) > 0 && eventFirst[0]
	type claim struct {
		name string
		f    func(n *node)
	}
	claims := []claim{
		{"alive(x,2)", func(n *node) {
			n.M.VAliveNode(&ml.VAlive{Incarnation: 2, Node: "x", Addr: ip4(9), Port: 7946, Meta: []byte("m2"), Vsn: defaultVsn}, nil, false)
		}},
		{"alive(x,1,B)", func(n *node) {
			n.M.VAliveNode(&ml.VAlive{Incarnation: 1, Node: "x", Addr: ip4(10), Port: 7946, Vsn: defaultVsn}, nil, false)
		}},
		{"suspect(x,1)", func(n *node) { n.M.VSuspectNode(&ml.VSuspect{Incarnation: 1, Node: "x", From: "t"}) }},
		{"suspect(x,2)", func(n *node) { n.M.VSuspectNode(&ml.VSuspect{Incarnation: 2, Node: "x", From: "u"}) }},
		{"dead(x,1)", func(n *node) { n.M.VDeadNode(&ml.VDead{Incarnation: 1, Node: "x", From: "t"}) }},
		{"left(x,1)", func(n *node) { n.M.VDeadNode(&ml.VDead{Incarnation: 1, Node: "x", From: "x"}) }},
		{"reap", func(n *node) { n.M.VResetNodes() }},
		{"alive(new y,m=a)", func(n *node) {
			n.M.VAliveNode(&ml.VAlive{Incarnation: 1, Node: "y", Addr: ip4(11), Port: 7946, Meta: []byte("a"), Vsn: defaultVsn}, nil, false)
		}},
		{"pushpull alive(new y,m=b)", func(n *node) {
			n.M.VMergeState([]ml.VPushNodeState{{Name: "y", Addr: ip4(11), Port: 7946, Meta: []byte("b"), Incarnation: 1, State: ml.StateAlive, Vsn: defaultVsn}})
		}},
	}
	prep := func(b *bubble) (*node, *c07mon) {
		mon := &c07mon{set: map[string]string{}}
		n := tNode(b, func(c *ml.Config) { c.Events.(*eventRec).hook = mon.onEvent; c.Alive = &aliveRec{} })
		mon.m = n.M
		n.M.VAliveNode(&ml.VAlive{Incarnation: 1, Node: "x", Addr: ip4(9), Port: 7946, Meta: []byte("m1"), Vsn: defaultVsn}, nil, false)
		advance(time.Microsecond)
		return n, mon
	}
	xState := func(n *node) string {
		out := ""
		for _, nm := range []string{"x", "y"} {
			r := findRec(n.M.VSnapshot(), nm)
			if r == nil {
				out += nm + ":absent "
				continue
			}
			meta := string(r.Meta)
			if nm == "y" {
				meta = "*" // either claim's metadata is a legal serial outcome only in its own order: compared through the serial results
				meta = string(r.Meta)
			}
			out += fmt.Sprintf("%s:%s i%d @%s m=%q timer=%v ", nm, stateName(r.State), r.Incarnation, hostPort(r.Addr, r.Port), meta, r.HasTimer)
		}
		return out + fmt.Sprintf("members=%v order=%d", memberNames(n.M), len(n.M.VSnapshot().Order))
	}
	var out []tScenario
	for i := range claims {
		for j := i + 1; j < len(claims); j++ {
			a, c := claims[i], claims[j]
			out = append(out, tScenario{Name: a.name + "||" + c.name, Build: func(b *bubble) ([]tThread, func(map[string]string) (string, string, string)) {
				// the two sequential results, computed on fresh nodes in this same bubble
				n1, _ := prep(b)
				a.f(n1)
				advance(time.Microsecond)
				c.f(n1)
				s1 := xState(n1)
				n2, _ := prep(b)
				c.f(n2)
				advance(time.Microsecond)
				a.f(n2)
				s2 := xState(n2)
				_ = n1.M.Shutdown()
				_ = n2.M.Shutdown()
				n, mon := prep(b)
				return []tThread{{"A", func() string { a.f(n); return "ok" }}, {"B", func() string { c.f(n); return "ok" }}}, func(res map[string]string) (string, string, string) {
					got := xState(n)
					if !evFirst && got != s1 && got != s2 {
						return "not-serializable", fmt.Sprintf("end state %s is neither %s (A;B) nor %s (B;A)", got, s1, s2), got
					}
					if n.Ev.MaxConc > 1 {
						return "concurrent-callbacks", "", got
					}
					if len(mon.errs) > 0 {
						return "event-log:" + strings.SplitN(mon.errs[0], ":", 2)[0], strings.Join(mon.errs, "; "), got
					}
					names := map[string]bool{}
					for _, m := range n.M.Members() {
						names[m.Name] = true
						if lm, ok := mon.set[m.Name]; ok && lm != string(m.Meta) {
							return "event-log:members-meta-without-event", m.Name, got
						}
					}
					if len(names) != len(mon.set) || len(names) != len(n.M.Members()) {
						return "event-log:members-changed-without-event", fmt.Sprintf("Members %v, log %v", memberNames(n.M), mon.set), got
					}
					if got != s1 && got != s2 {
						return "not-serializable", fmt.Sprintf("end state %s is neither %s (A;B) nor %s (B;A)", got, s1, s2), got
					}
					return "", "", got
				}
			}})
		}
	}
	return out
}

// ---------------------------------------------------------------- C17

func c17TScenarios() []tScenario {
	mk := func(name string, mut func(kr *ml.Keyring)) tScenario {
		return tScenario{Name: name, Build: func(b *bubble) ([]tThread, func(map[string]string) (string, string, string)) {
			kr, _ := ml.NewKeyring([][]byte{c17Keys["B"], c17Keys["C"], c17Keys["D"]}, c17Keys["A"])
			n := tNode(b, func(c *ml.Config) { c.Keyring = kr })
			plain := append([]byte{ml.VUserMsg}, []byte("sealed-under-D")...)
			ct, _ := ml.VEncryptPayload(1, c17Keys["D"], plain, nil)
			return []tThread{
					{"mutate", func() string { mut(kr); return "ok" }},
					{"decrypt", func() string {
						n.M.VIngestPacket(append([]byte(nil), ct...), simAddr("10.0.0.2:7946"), time.Now())
						return "ok"
					}},
					{"encrypt", func() string {
						return errStr(n.M.SendBestEffort(&ml.Node{Name: "p", Addr: ip4(2), Port: 7946}, []byte("x")))
					}},
				}, func(res map[string]string) (string, string, string) {
					settle()
					if len(n.D.Msgs) != 1 || !bytes.Equal(n.D.Msgs[0], []byte("sealed-under-D")) {
						return "decrypt-failed-during-keyring-change", fmt.Sprintf("message sealed under a key installed throughout was not delivered (%d delivered)", len(n.D.Msgs)), ""
					}
					if res["encrypt"] != "nil" {
						return "encrypt-failed-during-keyring-change", res["encrypt"], ""
					}
					// what went out opens under a key that was primary at some point (A or the new primary)
					for _, p := range n.T.Sent {
						if _, err := ml.VDecryptPayload(kr.GetKeys(), append([]byte(nil), p.Buf...), nil); err != nil {
							if _, err2 := ml.VDecryptPayload([][]byte{c17Keys["A"]}, append([]byte(nil), p.Buf...), nil); err2 != nil {
								return "sent-under-unknown-key", err.Error(), ""
							}
						}
					}
					return "", "", strings.Join(ringNames(kr.GetKeys()), ",")
				}
		}}
	}
	return []tScenario{
		mk("RemoveKey(B)||decrypt||encrypt", func(kr *ml.Keyring) { _ = kr.RemoveKey(c17Keys["B"]) }),
		mk("UseKey(C)||decrypt||encrypt", func(kr *ml.Keyring) { _ = kr.UseKey(c17Keys["C"]) }),
		mk("AddKey;UseKey;RemoveKey||decrypt||encrypt", func(kr *ml.Keyring) {
			nk := bytes.Repeat([]byte{0x99}, 16)
			_ = kr.AddKey(nk)
			_ = kr.UseKey(nk)
			_ = kr.RemoveKey(c17Keys["A"])
		}),
	}
}

// ---------------------------------------------------------------- C09: push/pull racing gossip

// A state exchange between two real nodes (initiator a, host b) while a gossip
// claim about a third member x reaches one of them: every interleaving of the
// merge's per-entry handler calls with the gossip handler (Engine T). The end
// state of x at the node that got the gossip must equal the result of SOME
// position of the gossip claim within the merged list (computed on fresh nodes
// by running the real handlers sequentially), and hearsay must never remove x.
func c09TScenarios() []tScenario {
	type gos struct {
		name string
		buf  func() []byte
	}
	enc := func(t uint8, v any) []byte { b, _ := ml.VEncode(t, v, false); return b }
	gossips := []gos{
		{"alive(x,4)", func() []byte {
			return enc(ml.VAliveMsg, &ml.VAlive{Incarnation: 4, Node: "x", Addr: ip4(30), Port: 7946, Meta: []byte("g"), Vsn: defaultVsn})
		}},
		{"suspect(x,3)", func() []byte { return enc(ml.VSuspectMsg, &ml.VSuspect{Incarnation: 3, Node: "x", From: "w"}) }},
		{"dead(x,3)", func() []byte { return enc(ml.VDeadMsg, &ml.VDead{Incarnation: 3, Node: "x", From: "w"}) }},
	}
	xs := []xstate{{"alive", 3}, {"dead", 3}, {"suspect", 3}, {"alive", 4}}
	xOf := func(n *node) string {
		r := findRec(n.M.VSnapshot(), "x")
		if r == nil {
			return "absent"
		}
		return fmt.Sprintf("%s i%d m=%q timer=%v", stateName(r.State), r.Incarnation, r.Meta, r.HasTimer)
	}
	var out []tScenario
	for _, g := range gossips {
		for _, ax := range xs {
			for _, bx := range xs {
				if ax == bx {
					continue
				}
				for _, target := range []string{"initiator", "host"} {
					g, ax, bx, target := g, ax, bx, target
					name := fmt.Sprintf("join(a:x=%v,b:x=%v)||gossip %s at %s", ax, bx, g.name, target)
					out = append(out, tScenario{Name: name, Horizon: 20 * time.Second, Build: func(b *bubble) ([]tThread, func(map[string]string) (string, string, string)) {
						l := lat{Enc: "off", IPNames: true}
						// expected end states: the gossip claim at every position of the list the target merges
						mkPair := func() *pair {
							p := newPairOpt(b, l, false, func(name string, c *ml.Config) { c.TCPTimeout = 2 * time.Second })
							applyX(p.s, ax)
							applyX(p.r, bx)
							p.drainQueues()
							return p
						}
						want := map[string]bool{}
						{
							p0 := mkPair()
							tn, other := p0.s, p0.r
							if target == "host" {
								tn, other = p0.r, p0.s
							}
							// the list the target will merge = the other side's records in its list order
							os := other.M.VSnapshot()
							var list []ml.VPushNodeState
							for _, nm := range os.Order {
								r := findRec(os, nm)
								list = append(list, ml.VPushNodeState{Name: r.Name, Addr: r.Addr, Port: r.Port, Meta: r.Meta, Incarnation: r.Incarnation, State: r.State, Vsn: r.Vsn[:]})
							}
							_ = p0.s.M.Shutdown()
							_ = p0.r.M.Shutdown()
							_ = tn
							for pos := 0; pos <= len(list); pos++ {
								q := mkPair()
								qt := q.s
								if target == "host" {
									qt = q.r
								}
								qt.M.VMergeState(list[:pos])
								advance(time.Microsecond)
								qt.M.VHandleCommand(g.buf(), simAddr("10.0.0.9:7946"), time.Now())
								settle()
								advance(time.Microsecond)
								qt.M.VMergeState(list[pos:])
								want[xOf(qt)] = true
								_ = q.s.M.Shutdown()
								_ = q.r.M.Shutdown()
							}
						}
						p := mkPair()
						tn := p.s
						if target == "host" {
							tn = p.r
						}
						before := tn.M.VSnapshot()
						return []tThread{
								{"join", func() string {
									n, err := p.s.M.Join([]string{string(p.r.Addr)})
									return fmt.Sprintf("%d/%v", n, err == nil)
								}},
								{"gossip", func() string { tn.T.Deliver(g.buf(), simAddr("10.0.0.9:7946")); return "ok" }},
							}, func(res map[string]string) (string, string, string) {
								settle()
								got := xOf(tn)
								if res["join"] != "1/true" {
									return "join-failed", res["join"], got
								}
								if !want[got] {
									var ws []string
									for w := range want {
										ws = append(ws, w)
									}
									return "merge-gossip-not-serializable", fmt.Sprintf("x at the %s ended as %s; sequential positions give %v", target, got, ws), got
								}
								// hearsay never kills: if x was a member and neither the gossip nor the list carried a self-signed departure, a dead/suspect hearsay must not have removed it unless the gossip itself was a death claim
								rb := findRec(before, "x")
								if rb != nil && (rb.State == ml.StateAlive || rb.State == ml.StateSuspect) && g.name != "dead(x,3)" && !listed(tn, "x") {
									return "hearsay-killed-member", fmt.Sprintf("x was %s at the %s, now %s", stateName(rb.State), target, got), got
								}
								if !listed(p.s, p.r.Name) || !listed(p.r, p.s.Name) {
									return "join-not-mutual", "", got
								}
								return "", "", got
							}
					}})
				}
			}
		}
	}
	return out
}

// ---------------------------------------------------------------- C06: the suspicion timer's callback racing a refutation

// x is suspect with a running timer. At the very instant the timer expires a
// refutation (alive at the next incarnation) is processed on another thread:
// every interleaving of the timer callback (check under the lock, release,
// declare dead) with the alive handler. Whatever the order, the refutation is
// newer than the suspicion: x must end up alive at the refuting incarnation,
// still listed (a death declared first is overridden by the newer alive).
func c06TScenarios() []tScenario {
	mk := func(name string, k int, late time.Duration) tScenario {
		return tScenario{Name: name, Horizon: 40 * time.Second, Build: func(b *bubble) ([]tThread, func(map[string]string) (string, string, string)) {
			n := tNode(b, func(c *ml.Config) { c.SuspicionMult = 2 + k; c.SuspicionMaxTimeoutMult = 1 })
			for i := 0; i < 3; i++ {
				n.M.VAliveNode(&ml.VAlive{Incarnation: 1, Node: fmt.Sprintf("q%d", i), Addr: ip4(byte(40 + i)), Port: 7946, Vsn: defaultVsn}, nil, false)
			}
			n.M.VAliveNode(&ml.VAlive{Incarnation: 1, Node: "x", Addr: ip4(9), Port: 7946, Vsn: defaultVsn}, nil, false)
			advance(time.Microsecond)
			n.M.VSuspectNode(&ml.VSuspect{Incarnation: 1, Node: "x", From: "t"})
			r := findRec(n.M.VSnapshot(), "x")
			dl := r.SuspStart.Add(r.SuspMax)
			return []tThread{
					{"refute", func() string {
						time.Sleep(time.Until(dl) + late)
						n.M.VAliveNode(&ml.VAlive{Incarnation: 2, Node: "x", Addr: ip4(9), Port: 7946, Meta: []byte("back"), Vsn: defaultVsn}, nil, false)
						return "ok"
					}},
					{"other", func() string { // keeps a second thread around the instant of the deadline
						time.Sleep(time.Until(dl))
						_ = n.M.Members()
						return "ok"
					}},
				}, func(res map[string]string) (string, string, string) {
					settle()
					time.Sleep(2 * time.Second)
					settle()
					x := findRec(n.M.VSnapshot(), "x")
					out := recStr(x)
					if x == nil || x.State != ml.StateAlive || x.Incarnation != 2 || !listed(n, "x") {
						return "refuted-suspicion-killed", fmt.Sprintf("the refutation at incarnation 2 was processed but x ended as %s", out), out
					}
					return "", "", out
				}
		}}
	}
	return []tScenario{mk("suspicion-timeout||refutation at the deadline (k=0)", 0, 0), mk("suspicion-timeout||refutation at the deadline (k=1)", 1, 0)}
}
