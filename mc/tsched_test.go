package mc

// Engine T — CHESS-style preemption-bounded exploration of the real code's
// own locks and atomics (import-rewritten to the vsync/vatomic shims at build
// time). Threads are goroutines that reach a hooked operation; the harness
// goroutine is the scheduler. Executions always run to completion.

import (
	"fmt"
	"sort"
	"strings"
	"testing"
	"time"

	"github.com/hashicorp/memberlist/vshim/vsched"
)

type tThread struct {
	Name string
	Body func() string // returns a short result string; panics are caught
}

type tExec struct {
	Choices  []int
	NEn      []int
	Pre      []bool // the previously running thread was still enabled at this point
	Names    [][]string
	Results  map[string]string
	Verdict  string
	Msg      string
	Outcome  string
	Points   int
	Diverged string
}

type tScenario struct {
	Name string
	// Build creates the world in pass-through mode and returns the threads plus a
	// finish function that judges the end state (called with the scheduler removed).
	Build   func(b *bubble) (threads []tThread, finish func(res map[string]string) (verdict, msg, outcome string))
	Horizon time.Duration // virtual time allowed for the threads to finish
	// AllowLeaveAfterShutdown: a Leave thread may hit the one documented panic when a
	// concurrent Shutdown wins the race.
	AllowLeaveAfterShutdown bool
}

func catchStr(f func() string) (out string) {
	defer func() {
		if r := recover(); r != nil {
			out = fmt.Sprintf("PANIC: %v", r)
		}
	}()
	return f()
}

func runT(t *testing.T, sc tScenario, prefix []int) (x tExec) {
	journal("T %s schedule %v", sc.Name, prefix)
	x.Results = map[string]string{}
	res := inBubble(t, func(b *bubble) {
		threads, finish := sc.Build(b)
		settle()
		s := &vsched.Sched{}
		vsched.Install(s)
		uninstalled := false
		defer func() {
			if !uninstalled {
				vsched.Install(nil)
			}
		}()
		done := make(chan [2]string, len(threads)+4)
		for _, th := range threads {
			th := th
			go func() {
				s.Point(vsched.KStart, nil, th.Name)
				r := catchStr(th.Body)
				done <- [2]string{th.Name, r}
			}()
			settle()
		}
		horizon := sc.Horizon
		if horizon == 0 {
			horizon = 30 * time.Second
		}
		deadline := time.Now().Add(horizon)
		finished := 0
		for finished < len(threads) {
			settle()
			for len(done) > 0 {
				d := <-done
				x.Results[d[0]] = d[1]
				finished++
			}
			if finished == len(threads) {
				break
			}
			en := s.Enabled()
			if len(en) == 0 {
				if !time.Now().Before(deadline) {
					if s.NumParked() > 0 {
						x.Verdict, x.Msg = "deadlock", fmt.Sprintf("%d goroutines parked on locks nobody can release; finished %v", s.NumParked(), x.Results)
					} else {
						x.Verdict, x.Msg = "thread-never-returned", fmt.Sprintf("after %v only %v finished", horizon, x.Results)
					}
					return
				}
				// nothing can move now: let virtual time advance until someone arrives or finishes
				tm := time.NewTimer(time.Until(deadline))
				select {
				case <-s.Arrive:
				case d := <-done:
					x.Results[d[0]] = d[1]
					finished++
				case <-tm.C:
				}
				tm.Stop()
				continue
			}
			select {
			case <-s.Arrive:
			default:
			}
			ch := 0
			if len(x.Choices) < len(prefix) {
				ch = prefix[len(x.Choices)]
				if ch >= len(en) {
					x.Diverged = fmt.Sprintf("choice %d: prefix wants %d of %d enabled", len(x.Choices), ch, len(en))
					ch = 0
				}
			}
			x.Choices = append(x.Choices, ch)
			x.NEn = append(x.NEn, len(en))
			x.Pre = append(x.Pre, s.Last != nil && en[0] == s.Last)
			s.Grant(en[ch])
		}
		// let background goroutines that are mid-way run to quiescence under the default policy
		for i := 0; i < 10000; i++ {
			settle()
			en := s.Enabled()
			if len(en) == 0 {
				break
			}
			s.Grant(en[0])
		}
		settle()
		x.Points = s.Points
		vsched.Install(nil)
		uninstalled = true
		v, m, o := finish(x.Results)
		if x.Verdict == "" {
			x.Verdict, x.Msg = v, m
		}
		x.Outcome = o
		for name, r := range x.Results {
			if sc.AllowLeaveAfterShutdown && strings.Contains(r, "leave after shutdown") {
				continue
			}
			if len(r) > 6 && r[:6] == "PANIC:" && x.Verdict == "" {
				x.Verdict, x.Msg = "panic:"+name, r
			}
		}
	})
	if res.Panic != nil && x.Verdict == "" {
		x.Verdict, x.Msg = "panic", fmt.Sprint(res.Panic)
	}
	if res.Leak && x.Verdict == "" {
		x.Verdict, x.Msg = "goroutine-leak", "goroutines still blocked after the scenario ended and every node was shut down"
	}
	return
}

// exploreT: iterative context bounding (Musuvathi/Qadeer): all schedules with
// at most `bound` preemptions. Sharded on the first deviation.
func exploreT(t *testing.T, rep *Report, sc tScenario, bound int, shardBase int, onExec func(x tExec)) (execs int) {
	idx := shardBase
	runStable := func(prefix []int) tExec {
		x := runT(t, sc, prefix)
		for try := 0; try < 3 && x.Diverged != ""; try++ {
			x = runT(t, sc, prefix)
		}
		if x.Diverged != "" {
			rep.AddExtra("replay_divergences", 1)
			rep.mu.Lock()
			rep.Exhaustive = false
			rep.mu.Unlock()
			x.Verdict = ""
			return x
		}
		if x.Verdict != "" {
			for i := 0; i < 4; i++ {
				y := runT(t, sc, x.Choices)
				if y.Verdict != x.Verdict {
					rep.AddExtra("unreproducible_verdicts", 1)
					rep.mu.Lock()
					rep.Exhaustive = false
					rep.Notes = append(rep.Notes, "a schedule verdict did not reproduce on replay and was not reported: "+sc.Name+" "+x.Verdict)
					rep.mu.Unlock()
					x.Verdict = ""
					break
				}
			}
		}
		return x
	}
	var rec func(prefix []int, depth int)
	rec = func(prefix []int, depth int) {
		if rep.OverBudget() {
			return
		}
		x := runStable(prefix)
		execs++
		onExec(x)
		for i := len(prefix); i < len(x.Choices); i++ {
			cost := 0
			for j := 0; j < i; j++ {
				if x.Pre[j] && x.Choices[j] != 0 {
					cost++
				}
			}
			if x.Pre[i] {
				cost++
			}
			if cost > bound {
				continue
			}
			for alt := 1; alt < x.NEn[i]; alt++ {
				if depth == 0 {
					idx++
					if !mine(idx) {
						continue
					}
				}
				np := make([]int, i+1)
				copy(np, x.Choices[:i])
				np[i] = alt
				rec(np, depth+1)
			}
		}
	}
	rec(nil, 0)
	return
}

func resultsStr(m map[string]string) string {
	ks := make([]string, 0, len(m))
	for k := range m {
		ks = append(ks, k)
	}
	sort.Strings(ks)
	s := ""
	for _, k := range ks {
		s += k + "=" + m[k] + " "
	}
	return s
}
