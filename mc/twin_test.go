package mc

// Engine W, second half: genuine traffic seeds captured from a real sender,
// a populated real receiver, and an "observable effect" digest used by the
// twin oracles of C13, C14 and C16.

import (
	"bytes"
	"fmt"
	"net"
	"sort"
	"strings"
	"time"

	ml "github.com/hashicorp/memberlist"
)

var (
	keyK1 = bytes.Repeat([]byte{0x11}, 16)
	keyK2 = bytes.Repeat([]byte{0x22}, 32)
	keyK3 = bytes.Repeat([]byte{0x33}, 16) // foreign
)

// rcfg describes one side's security configuration.
type rcfg struct {
	Keys      string // "" (no encryption) or names in ring order, e.g. "K1", "K2,K1"
	Label     string
	EncVsn    uint8 // 0 => protocol 1, 1 => protocol 2
	SkipLabel bool  // SkipInboundLabelCheck
	NoVerIn   bool
	NoVerOut  bool
	Comp      bool
}

func (c rcfg) String() string {
	lb := c.Label
	if len(lb) > 8 {
		lb = fmt.Sprintf("%dB", len(lb))
	}
	return fmt.Sprintf("keys=[%s] label=%q encv=%d skip=%v verin=%v verout=%v comp=%v", c.Keys, lb, c.EncVsn, c.SkipLabel, !c.NoVerIn, !c.NoVerOut, c.Comp)
}

func keyByName(n string) []byte {
	switch n {
	case "K1":
		return keyK1
	case "K2":
		return keyK2
	case "K3":
		return keyK3
	}
	panic("key " + n)
}

func (c rcfg) keyList() [][]byte {
	if c.Keys == "" {
		return nil
	}
	var out [][]byte
	for _, n := range strings.Split(c.Keys, ",") {
		out = append(out, keyByName(n))
	}
	return out
}

func (c rcfg) apply(cf *ml.Config) {
	cf.Label = c.Label
	cf.SkipInboundLabelCheck = c.SkipLabel
	cf.GossipVerifyIncoming = !c.NoVerIn
	cf.GossipVerifyOutgoing = !c.NoVerOut
	cf.EnableCompression = c.Comp
	if c.EncVsn == 0 {
		cf.ProtocolVersion = 1
	}
	if ks := c.keyList(); len(ks) > 0 {
		kr, err := ml.NewKeyring(ks[1:], ks[0])
		must(err)
		cf.Keyring = kr
	}
	cf.ProbeTimeout = time.Hour // a pending ping stays pending for the whole case
	cf.ProbeInterval = 2 * time.Hour
	cf.TCPTimeout = 10 * time.Second
}

type seed struct {
	Family string
	Stream bool
	Buf    []byte // packet as handed to the transport, or everything the initiator wrote on the stream
}

const (
	twinS = "10.0.0.1" // sender name (bare IP so that address lookups work)
	twinR = "10.0.0.2"
)

// captureSeeds runs one genuine message of every family from a real sender
// configured with c and returns the bytes that reached the transport.
func captureSeeds(b *bubble, c rcfg) []seed {
	var seeds []seed
	sn, err := newNode(twinS, ip4(1), c.apply)
	must(err)
	s := b.track(sn)
	advance(time.Microsecond)
	s.M.VAliveNode(&ml.VAlive{Incarnation: 1, Node: twinR, Addr: ip4(2), Port: 7946, Vsn: []uint8{1, 5, s.Cfg.ProtocolVersion, 0, 0, 0}}, nil, false)
	s.M.VAliveNode(&ml.VAlive{Incarnation: 1, Node: "victim", Addr: ip4(30), Port: 7946, Vsn: defaultVsn}, nil, false)
	s.M.VBroadcasts().Reset()
	s.D.Local = []byte("sender-user-state")
	rAddr := "10.0.0.2:7946"
	take := func(fam string) {
		for _, p := range s.T.TakeSent() {
			if p.To == rAddr {
				seeds = append(seeds, seed{Family: fam, Buf: p.Buf})
			}
		}
	}
	send := func(fam string, t uint8, v any) {
		must(s.M.VEncodeAndSendMsg(rAddr, twinR, t, v))
		take(fam)
	}
	send("ping", ml.VPingMsg, &ml.VPing{SeqNo: 7, Node: twinR, SourceAddr: ip4(1), SourcePort: 7946, SourceNode: twinS})
	send("indirect-ping", ml.VIndirectPingMsg, &ml.VIndirectPingReq{SeqNo: 8, Target: ip4(30), Port: 7946, Node: "victim", Nack: true, SourceAddr: ip4(1), SourcePort: 7946, SourceNode: twinS})
	send("ack", ml.VAckRespMsg, &ml.VAckResp{SeqNo: 1, Payload: []byte("ackpl")})
	send("nack", ml.VNackRespMsg, &ml.VNackResp{SeqNo: 1})
	send("suspect", ml.VSuspectMsg, &ml.VSuspect{Incarnation: 1, Node: "victim", From: twinS})
	send("alive", ml.VAliveMsg, &ml.VAlive{Incarnation: 4, Node: "newnode", Addr: ip4(40), Port: 7946, Meta: []byte("canary-meta"), Vsn: defaultVsn})
	send("dead", ml.VDeadMsg, &ml.VDead{Incarnation: 1, Node: "victim", From: twinS})
	must(s.M.SendBestEffort(&ml.Node{Name: twinR, Addr: ip4(2), Port: 7946, PMax: 5}, []byte("user-payload-0123456789abcdef-xyz\x01")))
	take("user")
	// a user message to a peer without checksum support whose plaintext is a whole
	// number of AES blocks and ends in 0x01 (so it also reads as validly padded)
	must(s.M.SendBestEffort(&ml.Node{Name: twinR, Addr: ip4(2), Port: 7946, PMax: 4}, append(bytes.Repeat([]byte("u"), 46), 0x01)))
	take("user-aligned")
	if c.Keys != "" && c.EncVsn == 1 {
		// ... and two whose last bytes almost read as padding (07 02 / 09 03 03): with the version byte
		// flipped to 0 the padding check has to look at every byte of the run
		must(s.M.SendBestEffort(&ml.Node{Name: twinR, Addr: ip4(2), Port: 7946, PMax: 4}, append(bytes.Repeat([]byte("u"), 45), 0x07, 0x02)))
		take("user-nearpad-2")
		must(s.M.SendBestEffort(&ml.Node{Name: twinR, Addr: ip4(2), Port: 7946, PMax: 4}, append(bytes.Repeat([]byte("u"), 44), 0x09, 0x03, 0x03)))
		take("user-nearpad-3")
	}
	{
		a, _ := ml.VEncode(ml.VAliveMsg, &ml.VAlive{Incarnation: 2, Node: "cnode", Addr: ip4(41), Port: 7946, Vsn: defaultVsn}, false)
		must(s.M.VRawSendMsgPacket(rAddr, twinR, nil, ml.VMakeCompound([][]byte{a, append([]byte{ml.VUserMsg}, []byte("in-compound")...)})))
		take("compound")
	}
	// streams: record everything the initiator writes
	var cur *[]byte
	s.T.OnDial = func(a ml.Address, d time.Duration) (net.Conn, error) {
		c1, c2 := simPipe(s.Addr, simAddr(a.Addr))
		b.conns = append(b.conns, c1, c2)
		buf := []byte{}
		cur = &buf
		c1.onWrite = func(bs []byte) { *cur = append(*cur, bs...) }
		_ = c2
		go func() { // swallow and close: the initiator's read fails, we only want its bytes
			tmp := make([]byte, 65536)
			for {
				if _, err := c2.Read(tmp); err != nil {
					return
				}
			}
		}()
		return c1, nil
	}
	stream := func(fam string, f func()) {
		cur = nil
		done := make(chan struct{})
		go func() { f(); close(done) }()
		settle()
		time.Sleep(11 * time.Second) // let the initiator's read deadline expire
		settle()
		<-done
		if cur != nil {
			seeds = append(seeds, seed{Family: fam, Stream: true, Buf: append([]byte(nil), (*cur)...)})
		}
		for _, cn := range b.conns {
			_ = cn.Close()
		}
	}
	stream("pushpull-join", func() { _ = s.M.VPushPullNode(rAddr, twinR, true) })
	stream("pushpull", func() { _ = s.M.VPushPullNode(rAddr, twinR, false) })
	stream("user-stream", func() {
		_ = s.M.SendReliable(&ml.Node{Name: twinR, Addr: ip4(2), Port: 7946}, []byte("reliable-payload-0123456789"))
	})
	stream("tcp-ping", func() { _, _ = s.M.VSendPingAndWaitForAck(rAddr, twinR, 55, time.Now().Add(5*time.Second)) })
	_ = s.M.Shutdown()
	return seeds
}

// ---------------------------------------------------------------- receiver

type receiver struct {
	n        *node
	cfg      rcfg
	pingRes  chan string
	pingDone string
	b        *bubble
}

func newReceiver(b *bubble, c rcfg, extra ...nodeOpt) *receiver {
	rn, err := newNode(twinR, ip4(2), append([]nodeOpt{c.apply}, extra...)...)
	must(err)
	r := &receiver{n: b.track(rn), cfg: c, pingRes: make(chan string, 1), b: b}
	advance(time.Microsecond)
	vs := []uint8{1, 5, rn.Cfg.ProtocolVersion, 0, 0, 0}
	rn.M.VAliveNode(&ml.VAlive{Incarnation: 1, Node: twinS, Addr: ip4(1), Port: 7946, Vsn: vs}, nil, false)
	rn.M.VAliveNode(&ml.VAlive{Incarnation: 1, Node: "victim", Addr: ip4(30), Port: 7946, Vsn: defaultVsn}, nil, false)
	rn.M.VBroadcasts().Reset()
	rn.D.Local = []byte("receiver-user-state")
	// a pending ping with sequence number 1 (so that a genuine ack/nack has an effect)
	go func() {
		_, err := rn.M.Ping(twinS, simTCPAddr{"10.0.0.1:7946"})
		if err == nil {
			r.pingRes <- "acked"
		} else {
			r.pingRes <- "failed"
		}
	}()
	settle()
	rn.T.TakeSent()
	return r
}

// effect is everything an outside observer can tell about the receiver.
func (r *receiver) effect(reply []byte) string {
	n := r.n
	var sb strings.Builder
	s := n.M.VSnapshot()
	for i := range s.Recs {
		x := &s.Recs[i]
		fmt.Fprintf(&sb, "%s:%s:i%d:%s:%q:%v:t%v|", x.Name, stateName(x.State), x.Incarnation, hostPort(x.Addr, x.Port), x.Meta, x.Vsn, x.HasTimer)
	}
	fmt.Fprintf(&sb, "own%d h%d ack%d q[%s]", s.Incarnation, s.Health, s.AckHandlers, queueFull(s))
	fmt.Fprintf(&sb, " msgs%q merged%q ev%d cf%d", n.D.Msgs, n.D.Merged, n.Ev.Len(), n.Cf.Len())
	select {
	case v := <-r.pingRes:
		r.pingDone = v
	default:
	}
	fmt.Fprintf(&sb, " ping=%s", r.pingDone)
	var sent []string
	keys := r.cfg.keyList()
	for _, p := range n.T.Sent {
		pl, err := peelPacket(p.Buf, keysIf(keys, !r.cfg.NoVerOut))
		if err != nil {
			sent = append(sent, fmt.Sprintf("%s<unpeelable %d>", p.To, len(p.Buf)))
		} else {
			sent = append(sent, fmt.Sprintf("%s<%x>", p.To, pl.Plain))
		}
	}
	sort.Strings(sent)
	fmt.Fprintf(&sb, " sent%v", sent)
	fmt.Fprintf(&sb, " reply=%s", r.classifyReply(reply))
	return sb.String()
}

// classifyReply peels what the receiver wrote back on a stream.
func (r *receiver) classifyReply(reply []byte) string {
	if len(reply) == 0 {
		return "none"
	}
	keys := r.cfg.keyList()
	enc := len(keys) > 0 && !r.cfg.NoVerOut
	_, frames, err := peelStream(reply, keys, enc, r.cfg.Label)
	if err != nil {
		return fmt.Sprintf("unpeelable(%v)", err)
	}
	var out []string
	for _, f := range frames {
		in, err := unwrapStreamFrame(f)
		if err != nil || len(in) == 0 {
			out = append(out, "bad-frame")
			continue
		}
		switch in[0] {
		case ml.VErrMsg:
			out = append(out, "error-reply")
		case ml.VAckRespMsg:
			out = append(out, fmt.Sprintf("ack<%x>", in[1:]))
		case ml.VPushPullMsg:
			out = append(out, "state-reply")
		default:
			out = append(out, fmt.Sprintf("type%d", in[0]))
		}
	}
	return strings.Join(out, ",")
}

// injectPacket delivers through the real packet listener.
func (r *receiver) injectPacket(buf []byte) {
	r.n.T.Deliver(buf, simAddr("10.0.0.1:7946"))
	settle()
}

// injectStream plays an initiator writing buf (then half-closing or staying
// silent) and returns what the receiver wrote back.
func (r *receiver) injectStream(buf []byte, closeAfter bool, wait time.Duration) (reply []byte, hc *simConn) {
	c1, c2 := simPipe(simAddr("10.0.0.1:7946"), r.n.Addr)
	r.b.conns = append(r.b.conns, c1, c2)
	c2.onWrite = func(bs []byte) { reply = append(reply, bs...) }
	r.n.T.Accept(c2)
	_, _ = c1.Write(buf)
	settle()
	if closeAfter {
		// half-close: the receiver sees EOF after the bytes
		c1.w.mu.Lock()
		c1.w.eof = true
		c1.w.signal()
		c1.w.mu.Unlock()
		settle()
	}
	if wait > 0 {
		time.Sleep(wait)
		settle()
	}
	return reply, c2
}

// retire shuts the receiver down (the pending ping is released by shutdown of
// the bubble; its goroutine ends with the probe timeout or stays blocked on a
// channel that nobody reads — it is not a memberlist goroutine).
func (r *receiver) retire() {
	// release the harness's own pending Ping (sequence number 1) so that its goroutine ends
	ack, _ := ml.VEncode(ml.VAckRespMsg, &ml.VAckResp{SeqNo: 1}, false)
	r.n.M.VHandleCommand(ack, simAddr("10.0.0.1:7946"), time.Now())
	settle()
	select {
	case v := <-r.pingRes:
		r.pingDone = v
	default:
	}
	_ = r.n.M.Shutdown()
}
