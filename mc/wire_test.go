package mc

// Wire helpers: peel the layers of a packet with the hook's exported codecs.

import (
	"encoding/binary"
	"fmt"
	"hash/crc32"
	"time"

	ml "github.com/hashicorp/memberlist"
	"github.com/hashicorp/memberlist/vshim/vrand"
)

// explode returns the leaf messages (type byte first) of an unencrypted,
// unlabelled packet, descending through crc, compress and compound wrappers.
func explode(buf []byte) (leaves [][]byte, err error) {
	if len(buf) == 0 {
		return nil, fmt.Errorf("empty")
	}
	switch buf[0] {
	case ml.VHasCrcMsg:
		if len(buf) < 5 {
			return nil, fmt.Errorf("short crc header")
		}
		if crc32.ChecksumIEEE(buf[5:]) != binary.BigEndian.Uint32(buf[1:5]) {
			return nil, fmt.Errorf("bad crc")
		}
		return explode(buf[5:])
	case ml.VCompressMsg:
		p, err := ml.VDecompressPayload(buf[1:])
		if err != nil {
			return nil, err
		}
		return explode(p)
	case ml.VCompoundMsg:
		trunc, parts, err := ml.VDecodeCompound(buf[1:])
		if err != nil {
			return nil, err
		}
		if trunc > 0 {
			return nil, fmt.Errorf("compound truncated by %d", trunc)
		}
		for _, p := range parts {
			l, err := explode(p)
			if err != nil {
				return nil, err
			}
			leaves = append(leaves, l...)
		}
		return leaves, nil
	}
	return [][]byte{buf}, nil
}

// detChooser: deterministic stand-in for math/rand in the code under test:
// shuffles are the identity, index draws rotate.
type detChooser struct{ n int }

func (d *detChooser) Choose(kind string, n int) int {
	switch kind {
	case "shuffle":
		return n - 1 // Fisher-Yates step swap(i, i): identity
	case "int63":
		return 0
	}
	d.n++
	return d.n
}

func installDetRand() { vrand.Install(&detChooser{}) }

// timeChooser: stand-in for math/rand in multi-node worlds. An index draw
// depends only on the virtual instant and on how many draws were already made
// at that instant, never on how many draws other nodes made earlier (a shared
// counter would couple the nodes and amplify any scheduling difference).
// Shuffles stay the identity. Over time the draws rotate through all
// residues, which is the fairness the convergence property assumes.
type timeChooser struct {
	last int64
	k    int64
}

func (d *timeChooser) Choose(kind string, n int) int {
	switch kind {
	case "shuffle":
		return n - 1
	case "int63":
		return 0
	}
	now := time.Now().UnixNano() / 1000
	if now != d.last {
		d.last, d.k = now, 0
	}
	d.k++
	h := uint64(now)*0x9E3779B97F4A7C15 + uint64(d.k)*0xC2B2AE3D27D4EB4F
	h ^= h >> 29
	return int(h % (1 << 30))
}

func installTimeRand() { vrand.Install(&timeChooser{}) }
