package mc

// Wire helpers: peel the layers of a packet with the hook's exported codecs.

import (
	"encoding/binary"
	"fmt"
	"hash/crc32"

	ml "github.com/hashicorp/memberlist"
	"github.com/hashicorp/memberlist/vshim/vrand"
)

// explode returns the leaf messages (type byte first) of an unencrypted,
// unlabelled packet, descending through crc, compress and compound wrappers.
func explode(buf []byte) (leaves [][]byte, err error) {
	if len(buf) == 0 {
		return nil, fmt.Errorf("empty")
	}
	switch buf[0] {
	case ml.VHasCrcMsg:
		if len(buf) < 5 {
			return nil, fmt.Errorf("short crc header")
		}
		if crc32.ChecksumIEEE(buf[5:]) != binary.BigEndian.Uint32(buf[1:5]) {
			return nil, fmt.Errorf("bad crc")
		}
		return explode(buf[5:])
	case ml.VCompressMsg:
		p, err := ml.VDecompressPayload(buf[1:])
		if err != nil {
			return nil, err
		}
		return explode(p)
	case ml.VCompoundMsg:
		trunc, parts, err := ml.VDecodeCompound(buf[1:])
		if err != nil {
			return nil, err
		}
		if trunc > 0 {
			return nil, fmt.Errorf("compound truncated by %d", trunc)
		}
		for _, p := range parts {
			l, err := explode(p)
			if err != nil {
				return nil, err
			}
			leaves = append(leaves, l...)
		}
		return leaves, nil
	}
	return [][]byte{buf}, nil
}

// detChooser: deterministic stand-in for math/rand in the code under test:
// shuffles are the identity, index draws rotate.
type detChooser struct{ n int }

func (d *detChooser) Choose(kind string, n int) int {
	switch kind {
	case "shuffle":
		return n - 1 // Fisher-Yates step swap(i, i): identity
	case "int63":
		return 0
	}
	d.n++
	return d.n
}

func installDetRand() { vrand.Install(&detChooser{}) }
