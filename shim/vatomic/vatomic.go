// Package vatomic is a build-time replacement for sync/atomic in the code
// under test: every operation is a scheduling point for Engine T when a
// scheduler is installed, and a pass-through otherwise.
package vatomic

import (
	"sync/atomic"
	"unsafe"

	"github.com/hashicorp/memberlist/vshim/vsched"
)

func pt() {
	if s := vsched.Cur(); s != nil && !s.IsSched() {
		s.Point(vsched.KAtomic, nil, "")
	}
}

type Uint32 struct{ v atomic.Uint32 }

func (x *Uint32) Load() uint32                    { pt(); return x.v.Load() }
func (x *Uint32) Store(v uint32)                  { pt(); x.v.Store(v) }
func (x *Uint32) Add(d uint32) uint32             { pt(); return x.v.Add(d) }
func (x *Uint32) Swap(v uint32) uint32            { pt(); return x.v.Swap(v) }
func (x *Uint32) CompareAndSwap(o, n uint32) bool { pt(); return x.v.CompareAndSwap(o, n) }

type Int32 struct{ v atomic.Int32 }

func (x *Int32) Load() int32                    { pt(); return x.v.Load() }
func (x *Int32) Store(v int32)                  { pt(); x.v.Store(v) }
func (x *Int32) Add(d int32) int32              { pt(); return x.v.Add(d) }
func (x *Int32) Swap(v int32) int32             { pt(); return x.v.Swap(v) }
func (x *Int32) CompareAndSwap(o, n int32) bool { pt(); return x.v.CompareAndSwap(o, n) }

type Uint64 struct{ v atomic.Uint64 }

func (x *Uint64) Load() uint64                    { pt(); return x.v.Load() }
func (x *Uint64) Store(v uint64)                  { pt(); x.v.Store(v) }
func (x *Uint64) Add(d uint64) uint64             { pt(); return x.v.Add(d) }
func (x *Uint64) Swap(v uint64) uint64            { pt(); return x.v.Swap(v) }
func (x *Uint64) CompareAndSwap(o, n uint64) bool { pt(); return x.v.CompareAndSwap(o, n) }

type Int64 struct{ v atomic.Int64 }

func (x *Int64) Load() int64                    { pt(); return x.v.Load() }
func (x *Int64) Store(v int64)                  { pt(); x.v.Store(v) }
func (x *Int64) Add(d int64) int64              { pt(); return x.v.Add(d) }
func (x *Int64) Swap(v int64) int64             { pt(); return x.v.Swap(v) }
func (x *Int64) CompareAndSwap(o, n int64) bool { pt(); return x.v.CompareAndSwap(o, n) }

type Bool struct{ v atomic.Bool }

func (x *Bool) Load() bool                    { pt(); return x.v.Load() }
func (x *Bool) Store(v bool)                  { pt(); x.v.Store(v) }
func (x *Bool) Swap(v bool) bool              { pt(); return x.v.Swap(v) }
func (x *Bool) CompareAndSwap(o, n bool) bool { pt(); return x.v.CompareAndSwap(o, n) }

type Value struct{ v atomic.Value }

func (x *Value) Load() any   { pt(); return x.v.Load() }
func (x *Value) Store(v any) { pt(); x.v.Store(v) }

type Pointer[T any] struct{ v atomic.Pointer[T] }

func (x *Pointer[T]) Load() *T                    { pt(); return x.v.Load() }
func (x *Pointer[T]) Store(v *T)                  { pt(); x.v.Store(v) }
func (x *Pointer[T]) Swap(v *T) *T                { pt(); return x.v.Swap(v) }
func (x *Pointer[T]) CompareAndSwap(o, n *T) bool { pt(); return x.v.CompareAndSwap(o, n) }

func AddUint32(p *uint32, d uint32) uint32  { pt(); return atomic.AddUint32(p, d) }
func AddInt32(p *int32, d int32) int32      { pt(); return atomic.AddInt32(p, d) }
func AddUint64(p *uint64, d uint64) uint64  { pt(); return atomic.AddUint64(p, d) }
func AddInt64(p *int64, d int64) int64      { pt(); return atomic.AddInt64(p, d) }
func LoadUint32(p *uint32) uint32           { pt(); return atomic.LoadUint32(p) }
func LoadInt32(p *int32) int32              { pt(); return atomic.LoadInt32(p) }
func LoadUint64(p *uint64) uint64           { pt(); return atomic.LoadUint64(p) }
func LoadInt64(p *int64) int64              { pt(); return atomic.LoadInt64(p) }
func StoreUint32(p *uint32, v uint32)       { pt(); atomic.StoreUint32(p, v) }
func StoreInt32(p *int32, v int32)          { pt(); atomic.StoreInt32(p, v) }
func StoreUint64(p *uint64, v uint64)       { pt(); atomic.StoreUint64(p, v) }
func StoreInt64(p *int64, v int64)          { pt(); atomic.StoreInt64(p, v) }
func SwapUint32(p *uint32, v uint32) uint32 { pt(); return atomic.SwapUint32(p, v) }
func SwapInt32(p *int32, v int32) int32     { pt(); return atomic.SwapInt32(p, v) }
func CompareAndSwapUint32(p *uint32, o, n uint32) bool {
	pt()
	return atomic.CompareAndSwapUint32(p, o, n)
}
func CompareAndSwapInt32(p *int32, o, n int32) bool { pt(); return atomic.CompareAndSwapInt32(p, o, n) }
func CompareAndSwapUint64(p *uint64, o, n uint64) bool {
	pt()
	return atomic.CompareAndSwapUint64(p, o, n)
}
func CompareAndSwapInt64(p *int64, o, n int64) bool    { pt(); return atomic.CompareAndSwapInt64(p, o, n) }
func LoadPointer(p *unsafe.Pointer) unsafe.Pointer     { pt(); return atomic.LoadPointer(p) }
func StorePointer(p *unsafe.Pointer, v unsafe.Pointer) { pt(); atomic.StorePointer(p, v) }
