// Package vatomic is a build-time replacement for sync/atomic in the code
// under test: every operation is a scheduling point for Engine T when a
// scheduler is installed, and a pass-through otherwise.
package vatomic

import (
	"sync/atomic"

	"github.com/hashicorp/memberlist/vshim/vsched"
)

func pt() {
	if s := vsched.Cur(); s != nil && !s.IsSched() {
		s.Point(vsched.KAtomic, nil, "")
	}
}

type Uint32 struct{ v atomic.Uint32 }

func (x *Uint32) Load() uint32        { pt(); return x.v.Load() }
func (x *Uint32) Store(v uint32)      { pt(); x.v.Store(v) }
func (x *Uint32) Add(d uint32) uint32 { pt(); return x.v.Add(d) }

type Int32 struct{ v atomic.Int32 }

func (x *Int32) Load() int32       { pt(); return x.v.Load() }
func (x *Int32) Store(v int32)     { pt(); x.v.Store(v) }
func (x *Int32) Add(d int32) int32 { pt(); return x.v.Add(d) }

func AddUint32(p *uint32, d uint32) uint32 { pt(); return atomic.AddUint32(p, d) }
func LoadUint32(p *uint32) uint32          { return atomic.LoadUint32(p) }
