// Package vrand is a build-time replacement for math/rand in the code under
// test. With no chooser installed it passes through to math/rand; with one,
// every random draw of the implementation is a choice point owned by the
// explorer.
package vrand

import (
	mr "math/rand"
	"sync/atomic"
)

// Chooser decides random draws. kind is "offset" (Uint32, used modulo n by
// the caller: the chooser returns the raw value), "int63" (ticker stagger)
// or "shuffle" (one Fisher-Yates step: pick j in [0,n)).
type Chooser interface {
	Choose(kind string, n int) int
}

type holder struct{ c Chooser }

var cur atomic.Pointer[holder]

func Install(c Chooser) {
	if c == nil {
		cur.Store(nil)
		return
	}
	cur.Store(&holder{c})
}

func get() Chooser {
	if h := cur.Load(); h != nil {
		return h.c
	}
	return nil
}

func Int63() int64 {
	if c := get(); c != nil {
		return int64(c.Choose("int63", 1<<30))
	}
	return mr.Int63()
}
func Uint32() uint32 {
	if c := get(); c != nil {
		return uint32(c.Choose("offset", 1<<30))
	}
	return mr.Uint32()
}
func Shuffle(n int, swap func(i, j int)) {
	if c := get(); c != nil {
		for i := n - 1; i > 0; i-- {
			swap(i, c.Choose("shuffle", i+1))
		}
		return
	}
	mr.Shuffle(n, swap)
}
