// Package vsched: cooperative preemption-bounded scheduler (prototype).
package vsched

import (
	"bytes"
	"runtime"
	"strconv"
	"sync"
	"sync/atomic"
)

type Kind int

const (
	KStart Kind = iota
	KLock
	KRLock
	KAtomic
	KYield
)

// Lockable is implemented by shim mutexes; all methods are called with Sched.mu held.
type Lockable interface {
	CanAcquire(k Kind) bool
	Acquire(k Kind)
}

type Thread struct {
	ID    int
	Name  string
	gid   int64
	kind  Kind
	obj   Lockable
	grant chan struct{}
	Done  bool
}

type Sched struct {
	mu      sync.Mutex
	threads []*Thread
	byGid   map[int64]*Thread
	parked  []*Thread
	Arrive  chan struct{}
	schedG  int64
	Last    *Thread
	Points  int
}

var cur atomic.Pointer[Sched]

func Cur() *Sched { return cur.Load() }
func Install(s *Sched) {
	if s != nil {
		s.schedG = Goid()
		s.byGid = map[int64]*Thread{}
		s.Arrive = make(chan struct{}, 1)
	}
	cur.Store(s)
}

func Goid() int64 {
	var buf [64]byte
	n := runtime.Stack(buf[:], false)
	b := buf[len("goroutine "):n]
	i := bytes.IndexByte(b, ' ')
	id, _ := strconv.ParseInt(string(b[:i]), 10, 64)
	return id
}

// Known reports whether the calling goroutine is already a registered thread.
// Goroutines that never reached a hooked acquire (e.g. the harness's helper
// goroutines releasing a lock taken in pass-through mode) are not parked on release.
func (s *Sched) Known() bool {
	g := Goid()
	s.mu.Lock()
	defer s.mu.Unlock()
	_, ok := s.byGid[g]
	return ok
}

// IsSched reports whether the caller is the scheduler goroutine (exempt from parking).
func (s *Sched) IsSched() bool { return Goid() == s.schedG }
func (s *Sched) Mu() *sync.Mutex { return &s.mu }

// Point parks the calling goroutine until the scheduler grants it.
func (s *Sched) Point(k Kind, obj Lockable, name string) {
	g := Goid()
	s.mu.Lock()
	t := s.byGid[g]
	if t == nil {
		t = &Thread{ID: len(s.threads), Name: name, gid: g, grant: make(chan struct{})}
		s.threads = append(s.threads, t)
		s.byGid[g] = t
	}
	t.kind, t.obj = k, obj
	s.parked = append(s.parked, t)
	s.mu.Unlock()
	select {
	case s.Arrive <- struct{}{}:
	default:
	}
	<-t.grant
}

// Enabled returns parked threads that can proceed, canonical order: last-run first, then by ID.
func (s *Sched) Enabled() []*Thread {
	s.mu.Lock()
	defer s.mu.Unlock()
	var out []*Thread
	for _, t := range s.threads {
		if !s.isParked(t) {
			continue
		}
		if t.obj != nil && !t.obj.CanAcquire(t.kind) {
			continue
		}
		out = append(out, t)
	}
	if s.Last != nil {
		for i, t := range out {
			if t == s.Last {
				copy(out[1:i+1], out[:i])
				out[0] = t
				break
			}
		}
	}
	return out
}
func (s *Sched) isParked(t *Thread) bool {
	for _, p := range s.parked {
		if p == t {
			return true
		}
	}
	return false
}
func (s *Sched) NumParked() int { s.mu.Lock(); defer s.mu.Unlock(); return len(s.parked) }

// Grant lets t run; lock acquisition is performed atomically with the grant.
func (s *Sched) Grant(t *Thread) {
	s.mu.Lock()
	for i, p := range s.parked {
		if p == t {
			s.parked = append(s.parked[:i], s.parked[i+1:]...)
			break
		}
	}
	if t.obj != nil {
		t.obj.Acquire(t.kind)
	}
	s.Last = t
	s.Points++
	s.mu.Unlock()
	t.grant <- struct{}{}
}
