package vsync

import (
	"sync"

	"github.com/hashicorp/memberlist/vshim/vsched"
)

type WaitGroup = sync.WaitGroup
type Once = sync.Once
type Cond = sync.Cond
type Map = sync.Map
type Pool = sync.Pool
type Locker = sync.Locker

func NewCond(l Locker) *Cond { return sync.NewCond(l) }

type Mutex struct {
	real sync.Mutex
	held bool
}

func (m *Mutex) CanAcquire(vsched.Kind) bool { return !m.held }
func (m *Mutex) Acquire(vsched.Kind)         { m.held = true }
func (m *Mutex) Lock() {
	s := vsched.Cur()
	if s == nil {
		m.real.Lock()
		return
	}
	if s.IsSched() {
		s.Mu().Lock()
		if m.held {
			panic("vsync: scheduler goroutine would block on Mutex")
		}
		m.held = true
		s.Mu().Unlock()
		return
	}
	s.Point(vsched.KLock, m, "")
}
func (m *Mutex) Unlock() {
	s := vsched.Cur()
	if s == nil {
		m.real.Unlock()
		return
	}
	s.Mu().Lock()
	m.held = false
	s.Mu().Unlock()
	yieldAfterRelease(s)
}

// yieldAfterRelease makes the release of a lock a scheduling point too (as in
// CHESS): code that keeps working on shared state after releasing the lock
// (an event delivered outside the lock, a stale value used after re-locking)
// can then be overtaken exactly there.
func yieldAfterRelease(s *vsched.Sched) {
	if !s.IsSched() && s.Known() {
		s.Point(vsched.KYield, nil, "")
	}
}

// TryLock is provided for completeness.
func (m *Mutex) TryLock() bool {
	s := vsched.Cur()
	if s == nil {
		return m.real.TryLock()
	}
	s.Mu().Lock()
	defer s.Mu().Unlock()
	if m.held {
		return false
	}
	m.held = true
	return true
}

type RWMutex struct {
	real    sync.RWMutex
	w       bool
	readers int
}

func (m *RWMutex) CanAcquire(k vsched.Kind) bool {
	if k == vsched.KRLock {
		return !m.w
	}
	return !m.w && m.readers == 0
}
func (m *RWMutex) Acquire(k vsched.Kind) {
	if k == vsched.KRLock {
		m.readers++
	} else {
		m.w = true
	}
}
func (m *RWMutex) lock(k vsched.Kind) bool {
	s := vsched.Cur()
	if s == nil {
		return false
	}
	if s.IsSched() {
		s.Mu().Lock()
		if !m.CanAcquire(k) {
			panic("vsync: scheduler goroutine would block on RWMutex")
		}
		m.Acquire(k)
		s.Mu().Unlock()
		return true
	}
	s.Point(k, m, "")
	return true
}
func (m *RWMutex) Lock() {
	if !m.lock(vsched.KLock) {
		m.real.Lock()
	}
}
func (m *RWMutex) RLock() {
	if !m.lock(vsched.KRLock) {
		m.real.RLock()
	}
}
func (m *RWMutex) Unlock() {
	s := vsched.Cur()
	if s == nil {
		m.real.Unlock()
		return
	}
	s.Mu().Lock()
	m.w = false
	s.Mu().Unlock()
	yieldAfterRelease(s)
}
func (m *RWMutex) RUnlock() {
	s := vsched.Cur()
	if s == nil {
		m.real.RUnlock()
		return
	}
	s.Mu().Lock()
	m.readers--
	s.Mu().Unlock()
	yieldAfterRelease(s)
}
