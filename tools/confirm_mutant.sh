#!/bin/bash
# usage: confirm_mutant.sh <worktree> <mutant dir with patch.diff, demo_test.go>
# Confirms: demo passes on clean tree, fails with patch; full suite passes with patch (demo excluded).
export GOTOOLCHAIN=local GOFLAGS=-mod=mod GOPROXY=off GOSUMDB=off
WT=$1; M=$2
cd "$WT" || exit 2
git checkout -q -- . ; rm -f zz_mutant_demo*_test.go
cp "$M/demo_test.go" zz_mutant_demo_test.go
TESTS=$(grep -o '^func Test[A-Za-z0-9_]*' zz_mutant_demo_test.go | sed 's/func //' | paste -sd'|')
go1.26.8 test -vet=off -count=1 -run "^($TESTS)\$" . > /tmp/cm_clean.$$ 2>&1; C=$?
git apply "$M/patch.diff" || { echo "PATCH DOES NOT APPLY"; exit 2; }
go1.26.8 build ./... && go1.26.8 build -tags verif ./... || { echo "BUILD FAILS"; git checkout -q -- .; exit 2; }
go1.26.8 test -vet=off -count=1 -run "^($TESTS)\$" . > /tmp/cm_mut.$$ 2>&1; D=$?
rm -f zz_mutant_demo_test.go
go1.26.8 test -vet=off -count=1 -timeout 25m ./... > /tmp/cm_suite.$$ 2>&1; S=$?
if [ $S -ne 0 ]; then
  # the machine is shared with other suites (port collisions, timing): re-run only the failed tests alone
  FAILED=$(grep -E "^--- FAIL: " /tmp/cm_suite.$$ | sed 's/--- FAIL: \([^ ]*\).*/\1/' | grep -v / | sort -u | paste -sd'|')
  if [ -n "$FAILED" ]; then
    echo "suite failures, re-running alone: $FAILED"
    for try in 1 2 3 4 5 6 7 8; do
      go1.26.8 test -vet=off -count=1 -run "^($FAILED)\$" . > /tmp/cm_re.$$ 2>&1 && { S=0; echo "re-run alone: ok (try $try)"; break; }
    done
    rm -f /tmp/cm_re.$$
  fi
fi
git checkout -q -- .
echo "demo_clean_exit=$C demo_mutant_exit=$D suite_exit=$S tests=$TESTS"
[ $S -ne 0 ] && grep -E "^(--- FAIL|FAIL|ok)" /tmp/cm_suite.$$ | head
rm -f /tmp/cm_clean.$$ /tmp/cm_mut.$$ /tmp/cm_suite.$$
[ $C -eq 0 ] && [ $D -ne 0 ] && [ $S -eq 0 ] && echo CONFIRMED || echo NOT-CONFIRMED
