#!/bin/bash
# usage: tools/coverage.sh [ID ...]   (default: all properties, quick tier)
# Diagnostic, not a check: builds the harness with statement coverage of the
# memberlist package and reports which statements of /repo no quick check ever
# executes (candidate gaps: a fault there cannot be seen). Output: .build/cover/.
export GOTOOLCHAIN=local GOFLAGS=-mod=mod GOPROXY=off GOSUMDB=off
cd "$(dirname "$(readlink -f "$0")")/.." || exit 2
V=$(pwd)
mkdir -p .build/cover && rm -f .build/cover/*.out
python3 tools/mkoverlay.py .build || exit 2
cp /repo/go.sum mc/go.sum
# the cover tool does not read overlay-only (virtual) files: materialise the rewritten tree in a scratch copy
S=/tmp/verif-cover-$$; trap 'rm -rf $S' EXIT
mkdir -p $S && rsync -a --exclude .git /repo/ $S/repo/ && cp .build/ov/*.go $S/repo/ && mkdir -p $S/repo/vshim
for p in vsched vsync vatomic vrand; do mkdir -p $S/repo/vshim/$p && cp shim/$p/$p.go $S/repo/vshim/$p/; done
rsync -a mc/ $S/mc/ && (cd $S/mc && go1.26.8 mod edit -replace github.com/hashicorp/memberlist=$S/repo && go1.26.8 test -c -cover -covermode=set -coverpkg=github.com/hashicorp/memberlist -tags verif -vet=off -o $V/.build/mc.cover.test .) || exit 2
IDS=${@:-$(python3 -c "import json;print(' '.join(sorted(json.load(open('tools/checks.json')))))")}
for id in $IDS; do
  T=$(python3 -c "import json;print(json.load(open('tools/checks.json'))['$id']['test'])")
  N=$(python3 -c "import json;print(json.load(open('tools/checks.json'))['$id']['shards']['quick'])")
  for i in $(seq 0 $((N-1))); do
    ( cd mc && MC_TIER=quick MC_SHARD=$i/$N MC_SEED=0 MC_OUT=$V/.build/cover/$id.$i.json MC_JOURNAL=$V/.build/cover/$id.$i.j \
      GOMAXPROCS=1 MC_BUDGET_S=600 VERIF_DIR=$V ../.build/mc.cover.test -test.run "^$T\$" -test.timeout 1800s \
      -test.coverprofile=$V/.build/cover/$id.$i.out > $V/.build/cover/$id.$i.log 2>&1 ) &
  done
  wait
  echo "done $id"
done
python3 - <<'EOF'
import glob, re, collections
hit = collections.defaultdict(int); per = collections.defaultdict(set)
for f in glob.glob('.build/cover/*.out'):
    pid = f.split('/')[-1].split('.')[0]
    for l in open(f):
        if l.startswith('mode:'): continue
        m = re.match(r'(.*):(\d+)\.(\d+),(\d+)\.(\d+) (\d+) (\d+)', l)
        k = (m.group(1).split('/')[-1], int(m.group(2)), int(m.group(4)))
        hit[k] += int(m.group(7))
        if int(m.group(7)): per[k].add(pid)
tot = len(hit); cov = sum(1 for v in hit.values() if v)
print('blocks %d covered %d (%.1f%%)' % (tot, cov, 100.0*cov/tot))
with open('.build/cover/uncovered.txt', 'w') as o:
    for k in sorted(hit):
        if not hit[k] and k[0] not in ('verif_hooks.go',):
            o.write('%s:%d-%d\n' % k)
print('uncovered blocks listed in .build/cover/uncovered.txt')
EOF
