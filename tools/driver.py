#!/usr/bin/env python3
"""Check driver: rebuilds the harness from /repo's current working tree (overlay +
hooks), runs the shards of one property's exhaustive exploration, merges the
shard reports into /verif/evidence/<ID>.json and prints VIOLATION /
KNOWN-FINDING lines. Exit 0 = property held on everything explored (or only
listed known findings), 1 = violation, 2 = the machinery itself could not run."""
import json, os, sys, subprocess, time, hashlib, re, shutil, argparse

VERIF = os.path.dirname(os.path.dirname(os.path.abspath(__file__)))
REPO = os.environ.get('VERIF_REPO', '/repo')
BUILD = os.path.join(VERIF, '.build')
GO = 'go1.26.8'
ENV = dict(os.environ, GOTOOLCHAIN='local', GOFLAGS='-mod=mod', GOPROXY='off', GOSUMDB='off')

# property -> configuration of its check
CHECKS = json.load(open(os.path.join(VERIF, 'tools', 'checks.json')))


def sh(cmd, **kw):
    return subprocess.run(cmd, **kw)


def build(race=False):
    os.makedirs(BUILD, exist_ok=True)
    r = sh([sys.executable, os.path.join(VERIF, 'tools', 'mkoverlay.py'), BUILD], env=ENV)
    if r.returncode != 0:
        print('driver: overlay generation failed', flush=True)
        sys.exit(2)
    gosum = os.path.join(REPO, 'go.sum')
    if os.path.exists(gosum):
        shutil.copy(gosum, os.path.join(VERIF, 'mc', 'go.sum'))
    out = os.path.join(BUILD, 'mc.race.test' if race else 'mc.test')
    cmd = [GO, 'test', '-c', '-tags', 'verif', '-overlay', os.path.join(BUILD, 'ov.json'), '-vet=off', '-o', out]
    if race:
        cmd.append('-race')
    cmd.append('.')
    t0 = time.time()
    r = sh(cmd, cwd=os.path.join(VERIF, 'mc'), env=ENV, stdout=subprocess.PIPE, stderr=subprocess.STDOUT, text=True)
    if r.returncode != 0:
        print(r.stdout)
        print('driver: harness build failed against the current /repo tree', flush=True)
        sys.exit(2)
    return out, time.time() - t0


def load_known():
    known, fixed = [], []
    p = os.path.join(VERIF, 'known_findings.txt')
    if os.path.exists(p):
        for line in open(p):
            line = line.strip()
            if not line or line.startswith('#'):
                continue
            m = re.match(r'^known:\s+property=(\S+)\s+sig=(\S+)\s+(.*)$', line)
            if m:
                known.append((m.group(1), m.group(2), m.group(3)))
            elif line.startswith('fixed:'):
                fixed.append(line)
    return known, fixed


def main():
    ap = argparse.ArgumentParser()
    ap.add_argument('prop')
    ap.add_argument('--tier', default=os.environ.get('VERIF_TIER', 'quick'))
    ap.add_argument('--replay', default=None)
    ap.add_argument('--shards', type=int, default=None)
    a = ap.parse_args()
    prop = a.prop
    if prop not in CHECKS:
        print('driver: unknown property', prop)
        sys.exit(2)
    cfg = CHECKS[prop]
    tier = a.tier if a.tier in ('quick', 'thorough') else 'quick'
    seed = int(os.environ.get('VERIF_SEED', '0') or 0)
    t0 = time.time()
    binp, bt = build(False)
    racebin = None
    if cfg.get('race_test'):
        racebin, bt2 = build(True)
        bt += bt2
    outdir = os.path.join(BUILD, 'out', prop)
    shutil.rmtree(outdir, ignore_errors=True)
    os.makedirs(outdir)
    os.makedirs(os.path.join(VERIF, 'replays'), exist_ok=True)

    nsh = a.shards or cfg.get('shards', {}).get(tier, cfg.get('shards', {}).get('quick', 1))
    if a.replay:
        nsh = 1
    timeout = cfg.get('timeout_s', {}).get(tier, 3600)
    procs = []
    for i in range(nsh):
        env = dict(ENV, MC_TIER=tier, MC_SHARD='%d/%d' % (i, nsh), MC_SEED=str(seed),
                   MC_OUT=os.path.join(outdir, 'shard_%d.json' % i),
                   MC_JOURNAL=os.path.join(outdir, 'journal_%d.txt' % i),
                   GOMAXPROCS=str(cfg.get('gomaxprocs', 1)),
                   MC_BUDGET_S=str(cfg.get('budget_s', {}).get(tier, 0)),
                   VERIF_DIR=VERIF)
        if a.replay:
            env['MC_REPLAY'] = os.path.abspath(a.replay)
        log = open(os.path.join(outdir, 'log_%d.txt' % i), 'w')
        cmd = [binp, '-test.run', '^%s$' % cfg['test'], '-test.timeout', '%ds' % timeout, '-test.v']
        memkb = cfg.get('ulimit_v_kb', 12 * 1024 * 1024)
        procs.append((i, subprocess.Popen(['bash', '-c', 'ulimit -v %d; exec "$@"' % memkb, 'x'] + cmd,
                                          env=env, stdout=log, stderr=subprocess.STDOUT, cwd=os.path.join(VERIF, 'mc')), log, 'main'))
    if racebin and not a.replay:
        env = dict(ENV, MC_TIER=tier, MC_SHARD='0/1', MC_SEED=str(seed),
                   MC_OUT=os.path.join(outdir, 'shard_race.json'),
                   MC_JOURNAL=os.path.join(outdir, 'journal_race.txt'),
                   GOMAXPROCS='16', VERIF_DIR=VERIF, GORACE='halt_on_error=0 exitcode=66')
        log = open(os.path.join(outdir, 'log_race.txt'), 'w')
        cmd = [racebin, '-test.run', '^%s$' % cfg['race_test'], '-test.timeout', '%ds' % timeout, '-test.v']
        procs.append(('race', subprocess.Popen(cmd, env=env, stdout=log, stderr=subprocess.STDOUT, cwd=os.path.join(VERIF, 'mc')), log, 'race'))

    reports, violations, racereports = [], [], []
    for i, p, log, kind in procs:
        rc = p.wait()
        log.close()
        rp = os.path.join(outdir, 'shard_%s.json' % i)
        logp = os.path.join(outdir, 'log_%s.txt' % i)
        rep = None
        if os.path.exists(rp):
            try:
                rep = json.load(open(rp))
            except Exception:
                rep = None
        if rep is None:
            # worker died before writing its report: attribute to the journalled case
            jp = os.path.join(outdir, 'journal_%s.txt' % i)
            case = open(jp, errors='replace').read().replace('\x00', '').strip() if os.path.exists(jp) else '?'
            tail = ''.join(open(logp).readlines()[-60:])
            kindsig = 'worker-crash'
            m = re.search(r'^(panic: .*|fatal error: .*)$', open(logp).read(), re.M)
            reason = m.group(1) if m else 'exit %d' % rc
            if 'test timed out' in tail or 'panic: test timed out' in reason:
                kindsig = 'worker-timeout'
            if 'WATCHDOG: no progress' in open(logp).read():
                kindsig = 'worker-hang'
                reason = 'the case made no progress for the watchdog limit (a goroutine of the code under test is stuck outside virtual time, e.g. deadlocked on a mutex)'
            keep = os.path.join(VERIF, 'replays', '%s-crash-shard%s.log' % (prop, i))
            shutil.copy(logp, keep)
            violations.append({'sig': '%s:%s' % (kindsig, case.split('\n')[0][:200]), 'msg': reason, 'replay': {'log': keep, 'case': case}})
            continue
        if kind == 'race':
            racereports.append(rep)
        else:
            reports.append(rep)
        for v in (rep.get('violations') or []):
            violations.append(v)
        if kind == 'race' and rc == 66 and not (rep.get('violations') or []):
            violations.append({'sig': 'data-race', 'msg': 'race detector reported a race', 'replay': {'log': logp}})

    # ---- merge
    cov = {}
    sums = ['states', 'transitions', 'traces_validated_against_impl', 'evaluations', 'distinct_nontrivial']
    for k in sums:
        vals = [r[k] for r in reports if k in r]
        if vals:
            cov[k] = sum(vals)
    distinct = {}
    for r in reports:
        for k, v in (r.get('outcomes') or {}).items():
            distinct[k] = distinct.get(k, 0) + v
    cov['outcomes'] = distinct
    cov['samples'] = []
    for r in reports:
        for s in r.get('samples', [])[:3]:
            if len(cov['samples']) < 12:
                cov['samples'].append(s)
    cov['exhaustive'] = bool(reports) and all(r.get('exhaustive', False) for r in reports) and len(reports) + len(racereports) == len(procs)
    cov['rule'] = reports[0].get('rule', '') if reports else ''
    cov['bounds'] = reports[0].get('bounds', {}) if reports else {}
    extra = {}
    for r in reports:
        for k, v in (r.get('extra') or {}).items():
            if isinstance(v, (int, float)) and not isinstance(v, bool):
                if k.startswith('max_'):
                    extra[k] = max(extra.get(k, 0), v)
                else:
                    extra[k] = extra.get(k, 0) + v
            elif isinstance(v, dict):
                d = extra.setdefault(k, {})
                for kk, vv in v.items():
                    if isinstance(vv, (int, float)) and not isinstance(vv, bool):
                        d[kk] = d.get(kk, 0) + vv
                    else:
                        d[kk] = vv
            else:
                extra.setdefault(k, v)
    cov.update(extra)
    for r in racereports:
        cov['race_pass'] = {'runs': r.get('evaluations', 0), 'rule': r.get('rule', ''), 'sampling': True, 'extra': r.get('extra', {})}
    cov['shards'] = nsh
    cov['build_s'] = round(bt, 1)
    if 'transitions' not in cov and 'evaluations' in cov:
        pass
    notes = []
    for r in reports:
        for n in r.get('notes', []):
            if n not in notes:
                notes.append(n)

    # ---- classify violations
    known, fixed = load_known()
    real, knownhits = [], {}
    for v in violations:
        hit = None
        for (kp, ksig, kdesc) in known:
            if kp == prop and (v['sig'] == ksig or (ksig.endswith('*') and v['sig'].startswith(ksig[:-1]))):
                hit = (ksig, kdesc)
                break
        if hit:
            knownhits.setdefault(hit, 0)
            knownhits[hit] += 1
        else:
            real.append(v)
    # de-duplicate by signature, keep first of each
    seen, uniq = set(), []
    for v in real:
        if v['sig'] in seen:
            continue
        seen.add(v['sig'])
        uniq.append(v)

    for (ksig, kdesc), n in knownhits.items():
        print('KNOWN-FINDING: property=%s %s (sig=%s, %d cases this run)' % (prop, kdesc, ksig, n), flush=True)
    for v in uniq[:20]:
        h = hashlib.sha1(v['sig'].encode()).hexdigest()[:10]
        path = os.path.join(VERIF, 'replays', '%s-%s.json' % (prop, h))
        json.dump({'property': prop, 'sig': v['sig'], 'msg': v.get('msg', ''), 'replay': v.get('replay')}, open(path, 'w'), indent=1, default=str)
        print('VIOLATION property=%s replay=%s' % (prop, path), flush=True)
        print('  sig: %s' % v['sig'])
        print('  msg: %s' % str(v.get('msg', ''))[:600], flush=True)

    ev = {
        'property_id': prop, 'tier': tier, 'seed': seed, 'level': cfg['level'],
        'coverage': cov,
        'assumptions': (reports[0].get('assumptions', []) if reports else []) + notes,
        'wall_s': round(time.time() - t0, 2),
        'violations': len(uniq),
        'known_findings_hit': sum(knownhits.values()),
    }
    if not a.replay and REPO == '/repo':
        os.makedirs(os.path.join(VERIF, 'evidence'), exist_ok=True)
        json.dump(ev, open(os.path.join(VERIF, 'evidence', prop + '.json'), 'w'), indent=1, default=str)
    elif not a.replay:
        # a demonstration run against a scratch copy (VERIF_REPO): never evidence about /repo
        json.dump(ev, open(os.path.join(outdir, 'evidence.json'), 'w'), indent=1, default=str)
    print('%s tier=%s shards=%d states=%s transitions=%s evaluations=%s exhaustive=%s violations=%d known=%d wall=%.1fs' % (
        prop, tier, nsh, cov.get('states'), cov.get('transitions'), cov.get('evaluations'), cov['exhaustive'], len(uniq), sum(knownhits.values()), time.time() - t0), flush=True)
    if not reports and not violations:
        print('driver: no shard produced a report')
        sys.exit(2)
    sys.exit(1 if uniq else 0)


if __name__ == '__main__':
    main()
