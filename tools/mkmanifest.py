#!/usr/bin/env python3
"""Generate MANIFEST.json from tools/checks.json + tools/manifest_meta.json."""
import json, os
V = os.path.dirname(os.path.dirname(os.path.abspath(__file__)))
checks = json.load(open(os.path.join(V, 'tools', 'checks.json')))
meta = json.load(open(os.path.join(V, 'tools', 'manifest_meta.json')))
props = [json.loads(l)['id'] for l in open(os.path.join(V, 'properties.jsonl'))]
m = {
 "version": 1,
 "setup_cmd": "bin/setup",
 "hooks": {
  "guard": "verif",
  "enable": "go1.26.8 test -c -tags verif -overlay .build/ov.json (tools/mkoverlay.py rewrites only math/rand, sync and sync/atomic import lines of the current /repo/*.go into shims at build time; /repo/verif_hooks.go is the only committed hook file)",
  "baseline_off_cmd": "cd /repo && GOTOOLCHAIN=local GOFLAGS=-mod=mod GOPROXY=off go1.26.8 test -vet=off -count=1 -timeout 25m ./...",
  "source_commits": meta["hook_commits"],
  "add_only": True
 },
 "engines": meta["engines"],
 "checks": [],
 "notes": meta["notes"],
 "not_applicable": []
}
for p in props:
    if p in checks and p in meta["checks"]:
        c = meta["checks"][p]
        m["checks"].append({
         "property_id": p,
         "quick_cmd": "bin/check %s --tier quick" % p,
         "thorough_cmd": "bin/check %s --tier thorough" % p,
         "evidence_file": "evidence/%s.json" % p,
         "replay_cmd_template": "bin/check %s --replay {path}" % p,
         "engine": c["engine"],
         "level_claimed": {"category": checks[p]["level"], "text": c["text"], "design_ref": c.get("design_ref", "DESIGN.md §7 " + p)},
         "level_note": c["note"],
         "technique": c["technique"],
        })
    else:
        m["not_applicable"].append({"property_id": p, "reason": meta["not_applicable"].get(p, "check not yet built in this session; planned per DESIGN.md §7 (model checking applies; no result is claimed until the check exists)")})
json.dump(m, open(os.path.join(V, 'MANIFEST.json'), 'w'), indent=1)
print(len(m["checks"]), "checks;", len(m["not_applicable"]), "not claimed")
