#!/usr/bin/env python3
"""Generate a go build overlay that rewrites math/rand, sync and sync/atomic
imports of the CURRENT /repo/*.go (non-test) files to the verification shims and
adds the shim packages as virtual packages inside the memberlist module.
/repo itself is never modified."""
import json, os, re, glob, sys, shutil
repo = os.environ.get('VERIF_REPO', '/repo')
out = os.path.abspath(sys.argv[1] if len(sys.argv) > 1 else '/verif/.build')
ovdir = os.path.join(out, 'ov')
shutil.rmtree(ovdir, ignore_errors=True)
os.makedirs(ovdir, exist_ok=True)
ov = {}
MOD = 'github.com/hashicorp/memberlist/vshim/'
for f in sorted(glob.glob(os.path.join(repo, '*.go'))):
    if f.endswith('_test.go'):
        continue
    s = open(f).read()
    t = re.sub(r'^(\s*)"math/rand"$', r'\1rand "%svrand"' % MOD, s, flags=re.M)
    t = re.sub(r'^(\s*)"sync"$', r'\1sync "%svsync"' % MOD, t, flags=re.M)
    t = re.sub(r'^(\s*)"sync/atomic"$', r'\1atomic "%svatomic"' % MOD, t, flags=re.M)
    key = os.path.join('/repo', os.path.basename(f))  # the module always lives at /repo (go.mod replace)
    if t != s:
        o = os.path.join(ovdir, os.path.basename(f))
        open(o, 'w').write(t)
        ov[key] = o
    elif repo != '/repo':
        ov[key] = f  # demonstration runs against a scratch copy: take every file from it
here = os.path.dirname(os.path.dirname(os.path.abspath(__file__)))
for p in ['vsched', 'vsync', 'vatomic', 'vrand']:
    ov[os.path.join('/repo', 'vshim', p, p + '.go')] = os.path.join(here, 'shim', p, p + '.go')
json.dump({'Replace': ov}, open(os.path.join(out, 'ov.json'), 'w'), indent=1)
