#!/usr/bin/env python3
import json, sys
pid = sys.argv[1]; n = sys.argv[2] if len(sys.argv) > 2 else '2'
for l in open('/verif/properties.jsonl'):
    p = json.loads(l)
    if p['id'] == pid:
        break
print(f"""You are helping test a verification effort for the Go library hashicorp/memberlist (SWIM/Lifeguard gossip membership). Your job: produce {n} DIFFERENT realistic source changes ("seeded faults") to the library, each of which BREAKS the property below while the library still compiles and its ENTIRE existing test suite still passes.

Work ONLY inside your own scratch git worktree: /tmp/wt-{pid} (a checkout of the library; package memberlist at its root). Do not read or touch /repo or /verif or any other /tmp/wt-* directory. Never commit; leave changes only as patch files as described below.

Toolchain (sandbox is offline): in every shell call first run
  export GOTOOLCHAIN=local GOFLAGS=-mod=mod GOPROXY=off GOSUMDB=off
and use the `go1.26.8` binary (e.g. `go1.26.8 build ./...`, `go1.26.8 test -vet=off -count=1 -timeout 25m ./...`). The full suite takes about 45-60 s. The file verif_hooks.go (build tag `verif`) is an add-only hook file; leave it alone, but your change must still compile with `go1.26.8 build -tags verif ./...`.

THE PROPERTY ({p['id']}: {p['title']}):
{p['statement']}

It must hold: {p['quantifier']['text']}

Relevant code anchors: files {', '.join(p['anchors']['files'])}; mechanisms: {'; '.join(m['name'] + ' (' + m.get('where','') + ')' for m in p['anchors']['mechanism'])}

Requirements for each seeded fault:
1. It is a small, realistic bug a developer could plausibly introduce (an off-by-one, a wrong comparison, a reordered statement, a dropped guard, a stale cached value, a lock released too early, a "cleanup" refactor that subtly changes semantics) in the NON-test library source (*.go, not *_test.go, not verif_hooks.go). Not a blatant sabotage, and not dead code.
2. It must need something SPECIFIC to manifest: a particular interleaving, a fault at a particular point, a multi-step sequence of operations, an unusual input/configuration, or two cooperating sites that each look fine alone. Ordinary use (and the existing tests) must not expose it at once.
3. The library must still compile (with and without `-tags verif`) and the WHOLE existing test suite must still pass with your change: run `go1.26.8 test -vet=off -count=1 -timeout 25m ./...` and confirm `ok`. If an existing test fails, the fault is not acceptable - pick another. (A few tests are timing sensitive; if a failure looks unrelated re-run once to check.)
4. It genuinely violates the property statement above (observable through the public API, delegates/callbacks, or bytes handed to the Transport), not merely an internal detail.
5. Provide a demonstration: a NEW Go test file (package memberlist, name it zz_mutant_demo<k>_test.go) that FAILS with your change applied and PASSES on the unmodified tree. It may use internal functions and the in-package MockNetwork/MockTransport or a custom Transport. Verify both directions yourself (apply, run demo -> FAIL; revert with `git diff > /tmp/own.diff && git checkout -- .`, run demo -> PASS; never use `git stash`: it is shared between worktrees). Keep the demo deterministic.

Deliverables: create directory /tmp/wt-{pid}/.mutants/ and for each fault k=1..{n} write:
  .mutants/m<k>/patch.diff   (output of `git diff` for the library change ONLY, without the demo file; must apply with `git apply` to a clean checkout)
  .mutants/m<k>/demo_test.go (the demonstration test file content)
  .mutants/m<k>/README.md    (what was changed, why it breaks the property, exactly what is needed for it to manifest, the commands you ran and their results)
At the end leave the worktree's tracked files clean (git checkout -- . ; remove the zz_mutant_demo files from the root) so only .mutants/ remains.

In your final answer, summarise each fault in 3-5 lines (file/function changed, trigger needed, confirmation that the full suite passed and the demo fails/passes as required).""")
