#!/bin/bash
# usage: tools/run_all.sh [quick|thorough]  — runs every registered check sequentially, prints a table
cd /verif; tier=${1:-quick}
printf "%-5s %-6s %-9s %-12s %-12s %s\n" ID exit wall_s states evals exhaustive
for p in $(python3 -c "import json;print(' '.join(c['property_id'] for c in json.load(open('MANIFEST.json'))['checks']))"); do
  s=$(date +%s.%N); bin/check $p --tier $tier > /tmp/run_all_$p.log 2>&1; rc=$?; e=$(date +%s.%N)
  python3 - "$p" "$rc" "$s" "$e" <<'PY'
import json,sys
p,rc,s,e=sys.argv[1:]
try:
    c=json.load(open(f'/verif/evidence/{p}.json'))['coverage']
except Exception: c={}
print("%-5s %-6s %-9.1f %-12s %-12s %s"%(p,rc,float(e)-float(s),c.get('states','-'),c.get('evaluations','-'),c.get('exhaustive','-')))
PY
done
