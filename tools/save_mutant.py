#!/usr/bin/env python3
"""save_mutant.py <id> <prop> <mutant dir> <needs> <ran> : copy into /verif/seeded/<id>/ with meta.json"""
import sys, os, shutil, json
sid, prop, src, needs, ran = sys.argv[1:6]
caught_by = sys.argv[6] if len(sys.argv) > 6 else ''
d = os.path.join('/verif/seeded', sid)
os.makedirs(d, exist_ok=True)
shutil.copy(os.path.join(src, 'patch.diff'), os.path.join(d, 'patch.diff'))
shutil.copy(os.path.join(src, 'demo_test.go'), os.path.join(d, 'demo_test.go.txt'))
if os.path.exists(os.path.join(src, 'README.md')):
    shutil.copy(os.path.join(src, 'README.md'), os.path.join(d, 'README.md'))
json.dump({'id': sid, 'breaks_property': prop, 'needs_to_manifest': needs, 'what_i_ran': ran, 'caught_by': caught_by}, open(os.path.join(d, 'meta.json'), 'w'), indent=1)
print('saved', d)
