#!/bin/bash
# usage: try_mutant.sh <patch.diff> <prop> [<prop> ...]
# Applies the patch to a scratch worktree of /repo HEAD 
# and runs the quick checks against it through the VERIF_REPO override: /repo itself is not touched,
# so checks running elsewhere at the same time keep seeing the real tree.
P=$(readlink -f "$1"); shift
WT=/tmp/trepo-$$
git -C /repo worktree add -q --detach $WT HEAD || exit 2
trap 'git -C /repo worktree remove --force $WT >/dev/null 2>&1' EXIT
git -C $WT apply "$P" || { echo "patch does not apply"; exit 2; }
for prop in "$@"; do
  (cd "$(dirname "$(readlink -f "$0")")/.." && VERIF_REPO=$WT timeout 1200 bin/check $prop --tier quick 2>&1 | grep -E "^(VIOLATION|KNOWN|  sig|$prop tier|driver)" | head -12)
done
