#!/bin/bash
# usage: try_mutant.sh <patch.diff> <prop> [<prop> ...]   (applies to /repo, runs quick checks, reverts)
P=$1; shift
cd /repo && git apply "$P" || { echo "patch does not apply to /repo"; exit 2; }
for prop in "$@"; do
  (cd /verif && timeout 1200 bin/check $prop --tier quick 2>&1 | grep -E "^(VIOLATION|KNOWN|  sig|$prop tier|driver)" | head -12)
done
git -C /repo checkout -- . ; git -C /repo status --short | grep -v '^??' 
